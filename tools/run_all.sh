#!/bin/bash
# usage: run_all.sh <quick|thorough> [props...]   runs registered checks sequentially, prints one line each
cd /verif
tier=${1:-quick}; shift
props="$@"
if [ -z "$props" ]; then props=$(python3 -c "import json;print(' '.join(c['property_id'] for c in json.load(open('MANIFEST.json'))['checks']))"); fi
fail=0
for p in $props; do
  s=$(date +%s.%N)
  out=$(./run.sh $p $tier 2>&1); rc=$?
  e=$(date +%s.%N)
  printf "%s rc=%d %.1fs %s\n" $p $rc $(echo "$e - $s" | bc) "$(echo "$out" | grep -E '^(VIOLATION|KNOWN|INCONCLUSIVE|OK|BUILD)' | head -2 | tr '\n' ' ' | cut -c1-200)"
  [ $rc -ne 0 ] && fail=1
done
exit $fail
