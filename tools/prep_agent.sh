#!/bin/bash
# usage: prep_agent.sh <Cxx> <suffix>    creates scratch worktree /tmp/wt/<Cxx><suffix>, output dir and the prompt file
# The "extra" line names only the locations earlier sub-agents already changed (for diversity); nothing about the checks.
set -u
pid=$1; suf=$2
wt=/tmp/wt/$pid$suf
mkdir -p /tmp/wt $wt-out
git -C /repo worktree remove --force $wt 2>/dev/null
git -C /repo worktree add -q --detach $wt HEAD || exit 2
used=$(python3 - "$pid" <<'PY'
import json,glob,os,sys
pid=sys.argv[1]; out=[]
for d in sorted(glob.glob('/verif/seeded/C*-*')):
    m=json.load(open(d+'/meta.json'))
    if os.path.basename(d).startswith(pid) or True:
        s=(m.get('summary') or '').split(':')[0][:90]
        if os.path.basename(d).startswith(pid): out.append(s)
print('; '.join(out))
PY
)
extra="Earlier volunteers already delivered changes at these locations for this property - choose a DIFFERENT function and a different mechanism: $used."
python3 tools/agent_prompt.py $pid $suf "$extra"
