#!/bin/bash
# usage: sweep.sh <tier> <seed>...   runs every registered check at each seed; prints one line per (seed, check)
cd "$(dirname "$0")/.."
tier=$1; shift
props=$(python3 -c "import json;print(' '.join(c['property_id'] for c in json.load(open('MANIFEST.json'))['checks']))")
for s in "$@"; do
  for p in $props; do
    t0=$(date +%s)
    o=$(VERIF_SEED=$s VERIF_OUT=$PWD/sweepout ./run.sh $p $tier 2>&1); rc=$?
    echo "seed=$s $p rc=$rc $(( $(date +%s) - t0 ))s $(echo "$o" | grep -E '^(VIOLATION|KNOWN|INCONCLUSIVE|OK|BUILD)' | head -2 | tr '\n' ' ' | cut -c1-260)"
    if [ $rc -ne 0 ]; then echo "$o" | grep -A3 "^VIOLATION" | head -12 | cut -c1-600; fi
  done
done
