#!/usr/bin/env python3
"""Regenerates /verif/MANIFEST.json from the table below (single source of truth for the interface)."""
import json, subprocess, os

ROOT = os.path.dirname(os.path.dirname(os.path.abspath(__file__)))

# id -> (level, technique, level text, level note, design ref)
CHECKS = {
 "C01": ("exploration", "runtime monitoring: reference-model monitor (Go slice) on every return value + independent structural walker after every operation + cold reopen from registers; deep-tree cases (depth >= 4, even/odd index-split parities), drains by single removals, small-scope exhaustive sequences",
         "Seeded hostile operation histories on the real library; every returned element/previous element/count/type/error is compared with an in-memory sequence after each operation, the slab tree is walked by an independent monitor, and the array is reopened by root id warm and from registers only. Held-on-what-was-observed, not a proof.",
         "Trusts the harness' model/walker, test_utils value types, the Go toolchain. Covers only generated histories and the slab sizes drawn.", "DESIGN.md §4 C01"),
 "C02": ("exploration", "runtime monitoring: reference-model monitor (Go map) on every return value + structural walker incl. digest-of-key filing check + cold reopen; default digester, harness digesters and a colliding hash-input provider under the default digester; deep-tree cases, batch-built start states, evictions / reopens inside the histories",
         "Seeded hostile histories on the real ordered map under the default and an order-revealing digester; every result compared with a dictionary model, structure and digest filing walked after each operation.",
         "Trusts the harness' model/walker and test_utils key types. Covers only generated histories.", "DESIGN.md §4 C02"),
 "C03": ("exploration", "runtime monitoring: ledger-proxy monitor (no write outside commit, no zero-address write) + crash point after every operation + cold rebuild from registers vs model snapshot of the last commit",
         "The ledger is the harness' own recording BaseStorage; a crash is taken after every operation by comparing the register map byte-for-byte with the last commit and rebuilding every live root from a copy of the registers with a brand-new storage.",
         "A crash is modelled as abandoning the in-memory storage; ledger calls are atomic. Covers generated histories and commit placements.", "DESIGN.md §4 C03"),
 "C05": ("exploration", "runtime monitoring: independent structural invariant walker at quiescent points after every operation under a hostile size workload (incl. deep-tree cases and directed collapse cases in which a Remove makes the tree grow while the root index slab is nearly full) + exhaustive sweep of all 32513 slab-size settings",
         "Independent walker over live slabs (size bands, element limits, header/child agreement, prefix sums, digests, sibling links, root fan-out) after every operation of hostile-size histories; the threshold arithmetic is checked for every legal slab size (exhaustive).",
         "Size constants restated in the harness are cross-checked against real encodings by C06. Histories are sampled.", "DESIGN.md §4 C05"),
 "C06": ("exploration", "runtime monitoring: byte-level monitor - every dirtied slab is encoded after every operation and the register is split with an independent CBOR decoder; equality with the reported size incl. the exact compact-map saving; batch-built and byte-converted containers, wide-parent cases (more than 256 inlined children per slab), composite values with up to 34 fields, long and many type infos",
         "Reported sizes are compared by EQUALITY with the bytes actually written for every dirtied slab after every operation and for every register at commits, including the two documented savings computed exactly.",
         "Trusts the fxamacker/cbor stream decoder for splitting items. Histories are sampled.", "DESIGN.md §4 C06"),
 "C07": ("exploration", "runtime monitoring: round-trip monitor - decode/re-encode byte identity, decoded-vs-live content comparison and independently computed header-flag truth for every dirtied slab and every committed register; batch-built and byte-converted containers, wide-parent cases (more than 256 inlined children; 26-70 type infos shared pairwise by inlined arrays and maps), composite values with up to 34 fields, long and many type infos",
         "Every slab state produced by the workloads is encoded, decoded, re-encoded and compared byte-for-byte and field-by-field; head flags are recomputed from content; in-repo serialization verifiers run as secondary oracle.",
         "Only version-1 registers are produced by the library. Slab states are those reached by sampled histories.", "DESIGN.md §4 C07"),
 "C08": ("exploration", "runtime monitoring: differential schedules - one history executed under 6 schedules of commit / drop-cache / reopen with model comparison in each and byte-equality of final registers across schedules; schedule-independence of the tree shape; wide-parent cases",
         "Each history runs under never-commit, commit-every-op, commit+drop-cache, full reopen, drop-cache-only and a mixed schedule; return values are checked against the model in every schedule and final registers must be byte-identical (content-identical for the composite-typed bucket).",
         "Composite bucket decided at case creation. Histories and schedules are sampled.", "DESIGN.md §4 C08"),
 "C09": ("exploration", "runtime monitoring: reachability monitor after every operation - ids resolvable in storage (universe recorded by a storage proxy) vs ids reached by an independent walk from live roots; same on registers after commits; drains by single removals, batch-built containers, blind disposal of unloaded persisted slabs",
         "The storage proxy records every id ever generated; after every operation the set of resolvable ids must equal the set reached from the live roots exactly once each; drained containers must occupy one slab.",
         "The harness disposes of every storable handed back (like cmd/smoke). Histories are sampled.", "DESIGN.md §4 C09"),
 "C10": ("exploration", "runtime monitoring: reference-model monitor from the ROOT after every child mutation through long-lived handles + inline-rule walker + cold rebuild at commits",
         "72% of operations go through handles of nested containers (depth 3-5, wrapped/unwrapped, refreshed at PRNG times); after every operation the whole tree is compared with the model from the root incl. the inline rule and value ids; commits are rebuilt cold.",
         "Canonical-handle discipline (one handle per container). Histories are sampled.", "DESIGN.md §4 C10"),
 "C11": ("exploration", "runtime monitoring: reference-model monitor on former parent and detached child after every stale-handle mutation + byte-level sizes + reachability with detached roots + cold rebuild",
         "Detached children are kept alive and mutated through stale handles while the parent moves on; parent and detached child are compared with independent models after every operation (content, structure, byte sizes, persisted form).",
         "Self-overwrite with the same child object is not generated. Histories are sampled.", "DESIGN.md §4 C11"),
 "C12": ("exploration", "runtime monitoring: reference-model monitor under an adversarial 4-level digester (all 256 alphabet profiles) with an executable prediction of every collision-limit refusal + no-trace check via storage proxy",
         "All 4^4 per-level digest alphabets x limits; every insert of a new key is predicted by the limit rule and refusals must be typed fatal errors that leave no trace; dictionary semantics and group structure checked after every operation.",
         "Nested maps use the default digester; only 4-level digesters. Histories are sampled.", "DESIGN.md §4 C12"),
 "C13": ("exploration", "runtime monitoring: enumeration monitor - every iterator flavour (callback functions and iterator objects incl. mixed Next/NextKey/NextValue and calls after the end, on roots and nested containers) compared element-by-element with the model's canonical order, mutation during mutable iteration, each full-enumeration flavour alone on a cold / half-loaded storage of its own, partial-load subsequence check and reverse pop on cold copies",
         "At checkpoints of seeded histories every enumeration flavour, all/boundary ranges, invalid ranges, in-iteration overwrite and child mutation, partial loads and reverse bulk pop are compared with the order computed from the model (digest vector, then insertion sequence).",
         "Insert/remove during mutable iteration is documented unsupported and not generated. States are sampled.", "DESIGN.md §4 C13"),
 "C14": ("fault_enumeration", "runtime monitoring with fault injection at the ledger proxy: every write/delete position of every commit failed in turn (both failure modes, retry now / later, pairs), compared with a fault-free twin; bounded-progress oracle (two-stage limit) for a faulted commit that never returns",
         "For each commit of each short history every single failing position is enumerated (and all pairs for small commits) for both commit flavours and 1/2/8 workers; after each failure: error class, applied-or-still-pending, read-your-writes, model equality; after retry byte-equality with the fault-free twin.",
         "numWorkers=0 outside the domain. Enumeration is complete per commit; histories are sampled.", "DESIGN.md §4 C14"),
 "C15": ("exploration", "runtime monitoring: online checker of a three-layer overlay specification after every storage call with unique-version slabs; thorough = closure over the abstract state space of the real object",
         "Immutable unique-version slabs make every read identify the write it observed; all observations are compared with a ledger/cache/write-set model after every step of random walks incl. injected commit faults; thorough explores the abstract state space of the real object to closure (exhaustive for 3 ids).",
         "is-loaded asserted exactly only for documented transitions; cache-level observations after an ambiguous (applied-but-failed) ledger write are not asserted.", "DESIGN.md §4 C15"),
 "C17": ("exploration", "runtime monitoring: reference-model + structural + byte-level + reachability monitors on bulk-built / copied / converted values, a large batch build grown by 2000 operations in the same storage session, then a divergence phase with the other value re-checked after every step",
         "Batch builds over many lengths and size profiles, the copy matrix with the predicate computed from the model, and byte conversions around the fast-path boundary; each result is fully verified, then mutated/disposed independently of its source.",
         "Lengths and profiles are sampled (not all lengths).", "DESIGN.md §4 C17"),
 "C18": ("fault_enumeration", "runtime monitoring: typed-error table + no-trace check via storage proxy + twin run without the rejected requests (register byte-equality) + enumeration of every callback/ledger-read failure position of cold lookups",
         "25% of steps are invalid requests; each must return the specific error and category, issue no store/remove/id allocation, keep ancestors valid, and commit the same registers as the twin history; every ledger read / comparator / hash-input call of probed lookups is failed in turn and must surface as external error.",
         "Enumeration complete over the call positions of the probed lookups; histories are sampled.", "DESIGN.md §4 C18"),
 "C20": ("fault_enumeration", "runtime monitoring: corruption enumeration - every slab x {delete referenced, add unreferenced, double reference, foreign owner} x {ledger level, storage API uncommitted/committed} against CheckStorageHealth; GetAllChildReferences vs independent walk; temporary-address roots",
         "For storages from valid histories the health check must accept (warm with pending writes, after commit, fresh+preloaded) and return the true roots, and must reject every enumerated single-slab corruption in every modality; the child-reference query is compared as multisets with an independent walk.",
         "Storages over 70 slabs are sampled keeping every reference kind; index->child references are not byte-patchable for the foreign-owner kind.", "DESIGN.md §4 C20"),
 "C04": ("exploration", "runtime monitoring: replica differential - the same history re-executed under varied worker counts, GOMAXPROCS, ledger-call jitter, object-pool state and in different OS processes; ordered commit write logs and registers compared; ascending-order monitor on every deterministic commit; the other commit flavour on the same history (registers and per-commit write multisets equal); direct vs. LedgerBaseStorage access path; pool probe (many-worker commit vs single-goroutine encoding) after commits that failed inside element / type-info encoding",
         "Every history runs as 6-9 replicas across 2-3 worker processes; the sequence (deterministic commit) or multiset (relaxed commit) of ledger writes with content hashes, the final registers and map seeds must be identical; each deterministic commit log must be strictly ascending in (owner, index).",
         "Schedules, map iteration orders and processes are sampled by repetition, not enumerated.", "DESIGN.md §4 C04"),
 "C16": ("exploration", "sanitizer + differential twin: Go race detector build (every report is a violation) over parallel commit / preload / error-path scenarios with injected jitter inside caller callbacks, each compared with a sequential re-implementation; concurrent independent clients compared with their solo runs; bounded-progress oracle (two-stage limit) for faulted commits / preloads that never return",
         "Race-detector build; worker counts 1-64 x GOMAXPROCS 1-16 x jitter; registers, cache content and errors compared with a one-goroutine reference; G=2..32 goroutines with private storages must obtain exactly their solo transcripts and registers.",
         "The race detector only sees executed interleavings; interleavings are sampled.", "DESIGN.md §4 C16"),
 "C19": ("exploration", "hostile-input monitor: mutational corpus (valid v1 registers of every slab kind + version-0 twins) under structure-aware byte mutators, a CBOR item-tree mutator and a systematic single-field arithmetic pass over every fixed-width field; panic / allocation / canary oracle with the input written to disk before each call; process watchdog for hangs",
         "Millions of mutated registers are fed to DecodeSlab and the header queries; accepted slabs have their size and child-reference accessors walked; any panic, process death, disproportionate allocation or hang is a violation.",
         "All byte strings is a corpus; never-loops is a bounded-time observation. Uses the harness' hardened storable decoder (test_utils' decoder itself allocates unboundedly on a crafted level count).", "DESIGN.md §4 C19"),
}

NOT_YET = {}

def main():
    props = [json.loads(l) for l in open(os.path.join(ROOT, "properties.jsonl"))]
    hook_commits = subprocess.run(["git", "-C", "/repo", "log", "--format=%H %s"], capture_output=True, text=True).stdout.splitlines()
    hooks = [l.split()[0] for l in hook_commits if l.split(" ", 1)[1].startswith("verif:")]
    checks, na = [], []
    for p in props:
        pid = p["id"]
        if pid in CHECKS:
            level, tech, text, note, ref = CHECKS[pid]
            checks.append({
                "property_id": pid,
                "quick_cmd": f"./run.sh {pid} quick",
                "thorough_cmd": f"./run.sh {pid} thorough",
                "evidence_file": f"evidence/{pid}.json",
                "replay_cmd_template": "./run.sh replay {path}",
                "engine": "harness",
                "level_claimed": {"category": level, "text": text, "design_ref": ref},
                "level_note": note,
                "technique": tech,
            })
        else:
            na.append({"property_id": pid, "reason": NOT_YET.get(pid, "check under construction in this round; runtime-monitoring design exists in DESIGN.md §4 but is not yet registered")})
    m = {
        "version": 1,
        "setup_cmd": "./run.sh setup",
        "hooks": {
            "guard": "verif",
            "enable": "the harness module (harness/go.mod) replaces github.com/onflow/atree with /repo and is built with `go build -tags verif`; the only guarded source file is /repo/verif_hooks.go",
            "baseline_off_cmd": "cd /repo && GOFLAGS=-mod=mod GOPROXY=off GOTOOLCHAIN=local /root/go/pkg/mod/golang.org/toolchain@v0.0.1-go1.24.0.linux-amd64/bin/go test -vet=off -count=1 -timeout 25m ./...",
            "source_commits": hooks,
            "add_only": True,
        },
        "engines": [{"name": "harness", "path": "harness/", "serves_properties": sorted(CHECKS), "kind_free_text": "Go runtime-monitoring harness: seeded workloads against the real library, ledger/storage proxies, reference models, independent slab walker, fault injection, race detector"}],
        "checks": checks,
        "notes": "VERIF_SEED (default 1) seeds every random choice; exit 0 held / 1 VIOLATION / 2 INCONCLUSIVE or build failure. Known findings: known_findings.json.",
        "not_applicable": na,
    }
    json.dump(m, open(os.path.join(ROOT, "MANIFEST.json"), "w"), indent=1)
    print("checks:", len(checks), "not_applicable:", len(na))

main()
