#!/usr/bin/env python3
"""Regenerates /verif/MANIFEST.json from the table below (single source of truth for the interface)."""
import json, subprocess, os

ROOT = os.path.dirname(os.path.dirname(os.path.abspath(__file__)))

# id -> (level, technique, level text, level note, design ref)
CHECKS = {
 "C01": ("exploration", "runtime monitoring: reference-model monitor (Go slice) on every return value + structural walker after every operation + cold reopen",
         "Seeded hostile operation histories on the real library; every returned element/previous element/count/type/error is compared with an in-memory sequence after each operation, the slab tree is walked by an independent monitor, and the array is reopened by root id warm and from registers only. Held-on-what-was-observed, not a proof.",
         "Trusts the harness' model/walker, test_utils value types, the Go toolchain. Covers only generated histories and the slab sizes drawn.", "DESIGN.md §4 C01"),
 "C02": ("exploration", "runtime monitoring: reference-model monitor (Go map) on every return value + structural walker incl. digest-of-key filing check + cold reopen",
         "Seeded hostile histories on the real ordered map under the default and an order-revealing digester; every result compared with a dictionary model, structure and digest filing walked after each operation.",
         "Trusts the harness' model/walker and test_utils key types. Covers only generated histories.", "DESIGN.md §4 C02"),
}

NOT_YET = {}

def main():
    props = [json.loads(l) for l in open(os.path.join(ROOT, "properties.jsonl"))]
    hook_commits = subprocess.run(["git", "-C", "/repo", "log", "--format=%H %s"], capture_output=True, text=True).stdout.splitlines()
    hooks = [l.split()[0] for l in hook_commits if l.split(" ", 1)[1].startswith("verif:")]
    checks, na = [], []
    for p in props:
        pid = p["id"]
        if pid in CHECKS:
            level, tech, text, note, ref = CHECKS[pid]
            checks.append({
                "property_id": pid,
                "quick_cmd": f"./run.sh {pid} quick",
                "thorough_cmd": f"./run.sh {pid} thorough",
                "evidence_file": f"evidence/{pid}.json",
                "replay_cmd_template": "./run.sh replay {path}",
                "engine": "harness",
                "level_claimed": {"category": level, "text": text, "design_ref": ref},
                "level_note": note,
                "technique": tech,
            })
        else:
            na.append({"property_id": pid, "reason": NOT_YET.get(pid, "check under construction in this round; runtime-monitoring design exists in DESIGN.md §4 but is not yet registered")})
    m = {
        "version": 1,
        "setup_cmd": "./run.sh setup",
        "hooks": {
            "guard": "verif",
            "enable": "the harness module (harness/go.mod) replaces github.com/onflow/atree with /repo and is built with `go build -tags verif`; the only guarded source file is /repo/verif_hooks.go",
            "baseline_off_cmd": "cd /repo && GOFLAGS=-mod=mod GOPROXY=off GOTOOLCHAIN=local /root/go/pkg/mod/golang.org/toolchain@v0.0.1-go1.24.0.linux-amd64/bin/go test -vet=off -count=1 -timeout 25m ./...",
            "source_commits": hooks,
            "add_only": True,
        },
        "engines": [{"name": "harness", "path": "harness/", "serves_properties": sorted(CHECKS), "kind_free_text": "Go runtime-monitoring harness: seeded workloads against the real library, ledger/storage proxies, reference models, independent slab walker, fault injection, race detector"}],
        "checks": checks,
        "notes": "VERIF_SEED (default 1) seeds every random choice; exit 0 held / 1 VIOLATION / 2 INCONCLUSIVE or build failure. Known findings: known_findings.json.",
        "not_applicable": na,
    }
    json.dump(m, open(os.path.join(ROOT, "MANIFEST.json"), "w"), indent=1)
    print("checks:", len(checks), "not_applicable:", len(na))

main()
