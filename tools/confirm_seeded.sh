#!/bin/bash
# usage: confirm_seeded.sh <name>     (deliverables in /tmp/wt/<name>-out, scratch worktree re-created at /tmp/wt/<name>-confirm)
# Confirms independently of the sub-agent: patch applies to a clean checkout of /repo HEAD, compiles,
# the demonstration fails with the change and passes without it, and the whole pinned suite passes with the change.
set -u
name=$1
out=/tmp/wt/$name-out
wt=/tmp/wt/$name-confirm
export GOFLAGS=-mod=mod GOPROXY=off GOSUMDB=off GOTOOLCHAIN=local
GO=/root/go/pkg/mod/golang.org/toolchain@v0.0.1-go1.24.0.linux-amd64/bin/go
res=$out/confirm.txt
: > $res
git -C /repo worktree remove --force $wt 2>/dev/null
git -C /repo worktree add -q --detach $wt HEAD || { echo "worktree failed" >> $res; exit 2; }
cd $wt
cp $out/zz_seeded_demo_test.go . 2>/dev/null
echo "demo without change:" >> $res
$GO test -vet=off -count=1 -run TestSeededDemo . >> $res 2>&1; echo "rc=$?" >> $res
git apply $out/patch.diff >> $res 2>&1 || { echo "PATCH DOES NOT APPLY" >> $res; }
$GO build ./... >> $res 2>&1 && echo "builds: yes" >> $res
echo "demo with change:" >> $res
$GO test -vet=off -count=1 -run TestSeededDemo . 2>&1 | tail -15 >> $res; echo "rc=${PIPESTATUS[0]}" >> $res
rm -f zz_seeded_demo_test.go
echo "full suite with change:" >> $res
$GO test -vet=off -count=1 -timeout 25m ./... 2>&1 | tail -5 >> $res; echo "rc=${PIPESTATUS[0]}" >> $res
cd /; git -C /repo worktree remove --force $wt
echo done >> $res
