#!/usr/bin/env python3
"""usage: save_seeded.py <agent-name> <seeded-id> <caught_by comma list> [<missed_by comma list>] [note]
Copies a confirmed seeded change from /tmp/wt/<agent-name>-out into /verif/seeded/<seeded-id>/ with a meta.json
recording which property it breaks, what it needs to manifest, what was run to confirm it and which checks catch it."""
import json, os, shutil, sys, re
name, sid, caught = sys.argv[1], sys.argv[2], sys.argv[3].split(',')
missed = [x for x in (sys.argv[4].split(',') if len(sys.argv) > 4 else []) if x]
note = sys.argv[5] if len(sys.argv) > 5 else ''
src = f'/tmp/wt/{name}-out'; dst = f'/verif/seeded/{sid}'
os.makedirs(dst, exist_ok=True)
shutil.copy(f'{src}/patch.diff', dst)
shutil.copy(f'{src}/zz_seeded_demo_test.go', f'{dst}/zz_seeded_demo_test.go')
am = {}
try: am = json.load(open(f'{src}/meta.json'))
except Exception as e: am = {'agent_meta_error': str(e)}
conf = open(f'{src}/confirm.txt').read()
rcs = re.findall(r'rc=(\d+)', conf)
suite = re.findall(r'^(ok\s+github.com/onflow/atree\s+[\d.]+s)', conf, re.M)
meta = {
 'property': am.get('property', sid[:3]),
 'summary': am.get('summary'),
 'needs_to_manifest': am.get('needs'),
 'origin': 'fresh sub-agent given only the property text and its own scratch worktree',
 'confirmed_by_me': {
   'procedure': 'tools/confirm_seeded.sh: clean worktree of /repo HEAD; demo without the change; git apply patch.diff; go build; demo with the change; full pinned suite with the change (demo file removed)',
   'demo_without_change_rc': rcs[0] if len(rcs) > 0 else None,
   'demo_with_change_rc': rcs[1] if len(rcs) > 1 else None,
   'full_suite_with_change_rc': rcs[2] if len(rcs) > 2 else None,
   'full_suite_line': suite[-1] if suite else None,
 },
 'caught_by_quick_checks': caught,
 'not_caught_by': missed,
 'how_run': 'tools/try_seeded.sh seeded/%s/patch.diff quick %s  (applies to /repo, runs, git checkout -- .)' % (sid, ' '.join(caught + missed)),
 'note': note,
}
json.dump(meta, open(f'{dst}/meta.json', 'w'), indent=1)
print('saved', dst, meta['confirmed_by_me'])
