#!/usr/bin/env python3
"""Regenerates the seeded-changes table in DESIGN.md from seeded/*/meta.json."""
import json, glob, os, re
rows = []
for d in sorted(glob.glob('/verif/seeded/C*/')):
    m = json.load(open(d + 'meta.json')); sid = os.path.basename(d.rstrip('/'))
    c = m.get('confirmed_by_me', {})
    ok = 'yes' if (str(c.get('demo_without_change_rc')) == '0' and str(c.get('demo_with_change_rc')) not in ('0', 'None') and str(c.get('full_suite_with_change_rc')) == '0') else 'PARTIAL'
    summ = (m.get('summary') or '').replace('\n', ' ').replace('|', '/')
    if len(summ) > 230: summ = summ[:227] + '...'
    needs = (m.get('needs_to_manifest') or '').replace('\n', ' ').replace('|', '/')
    if len(needs) > 200: needs = needs[:197] + '...'
    rows.append(f"| `{sid}` | {m.get('property')} | {m.get('origin','sub-agent').split(' ')[0] if False else ('sub-agent' if 'sub-agent' in m.get('origin','') else 'hand-written')} | {summ} | {needs} | {ok} | {', '.join(m.get('caught_by_quick_checks', []))} | {', '.join(m.get('not_caught_by', [])) or '—'} |")
table = "| id | breaks | origin | change | needs to manifest | compiles, suite green, demo fails only with change (confirmed) | caught by (quick tier) | run but silent |\n|---|---|---|---|---|---|---|---|\n" + "\n".join(rows)
p = '/verif/DESIGN.md'; s = open(p).read()
if 'SEEDED-TABLE-PLACEHOLDER' in s:
    s = s.replace('SEEDED-TABLE-PLACEHOLDER', '<!-- SEEDED-TABLE-BEGIN -->\n' + table + '\n<!-- SEEDED-TABLE-END -->')
else:
    s = re.sub(r'<!-- SEEDED-TABLE-BEGIN -->.*?<!-- SEEDED-TABLE-END -->', lambda m: '<!-- SEEDED-TABLE-BEGIN -->\n' + table + '\n<!-- SEEDED-TABLE-END -->', s, flags=re.S)
open(p, 'w').write(s)
print(len(rows), 'rows')
