#!/bin/bash
# usage: try_seeded.sh <patch.diff> <tier> <Cxx> [<Cxx>...]
# Applies a seeded change to /repo, runs the given checks, and undoes the change straight afterwards.
set -u
patch=$1; tier=$2; shift 2
cd /verif
if ! git -C /repo diff --quiet; then echo "/repo has uncommitted changes; refusing"; exit 2; fi
git -C /repo apply "$patch" || { echo "patch does not apply"; exit 2; }
trap 'git -C /repo checkout -- . ; echo "(reverted /repo)"' EXIT
for p in "$@"; do
  out=$(VERIF_SEED=${VERIF_SEED:-1} ./run.sh "$p" "$tier" 2>&1); rc=$?
  echo "== $p $tier exit=$rc"; echo "$out" | grep -E "^(VIOLATION|KNOWN|INCONCLUSIVE|OK|BUILD|  case)" | head -6 | cut -c1-400
done
