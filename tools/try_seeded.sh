#!/bin/bash
# usage: try_seeded.sh <patch.diff> <tier> <Cxx> [<Cxx>...]
# Runs the given checks against a seeded change WITHOUT touching /repo: the patch is applied to a scratch worktree,
# the harness is built against it (VERIF_REPO) and all output goes to a scratch VERIF_OUT; both are removed afterwards.
# (The prescribed in-place way - git -C /repo apply; run; git -C /repo checkout -- . - is tools/try_seeded_inplace.sh.)
set -u
patch=$(realpath "$1"); tier=$2; shift 2
wt=/tmp/wt/try-$$; out=/tmp/wt/try-$$-out
git -C /repo worktree add -q --detach $wt HEAD || exit 2
trap 'git -C /repo worktree remove --force '$wt'; rm -rf '$out EXIT
git -C $wt apply "$patch" || { echo "patch does not apply"; exit 2; }
mkdir -p $out
cd /verif
for p in "$@"; do
  o=$(VERIF_SEED=${VERIF_SEED:-1} VERIF_REPO=$wt VERIF_OUT=$out ./run.sh "$p" "$tier" 2>&1); rc=$?
  echo "== $p $tier exit=$rc"; echo "$o" | grep -E "^(VIOLATION|KNOWN|INCONCLUSIVE|OK|BUILD|  case)" | head -6 | cut -c1-400
done
