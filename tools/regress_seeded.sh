#!/bin/bash
# usage: regress_seeded.sh [ids...]   runs every kept seeded change against the quick check of ITS OWN property (scratch
# worktree, /repo untouched) and prints one line each: "<id> <property> caught|MISSED|inconclusive"
cd /verif
ids="$@"
[ -z "$ids" ] && ids=$(ls seeded | grep -E '^C[0-9]+-[a-z]$')
for id in $ids; do
  p=${id%%-*}
  out=$(tools/try_seeded.sh seeded/$id/patch.diff quick $p 2>&1)
  if echo "$out" | grep -q "^VIOLATION"; then r=caught; elif echo "$out" | grep -q "exit=0"; then r=MISSED; else r=inconclusive; fi
  echo "$id $p $r $(echo "$out" | grep -E '^  case' | head -1 | cut -c1-140)"
done
