#!/bin/bash
# usage: matrix.sh [seeded-id...]   detection matrix: every seeded change x every registered check (quick tier), in scratch worktrees
cd "$(dirname "$0")/.."
ids="$@"; [ -z "$ids" ] && ids=$(ls -d seeded/C*/ | xargs -n1 basename)
props=$(python3 -c "import json;print(' '.join(c['property_id'] for c in json.load(open('MANIFEST.json'))['checks']))")
for id in $ids; do
  wt=/tmp/wt/mx-$id; out=/tmp/wt/mx-$id-out
  git -C /repo worktree remove --force $wt 2>/dev/null
  git -C /repo worktree add -q --detach $wt HEAD || continue
  git -C $wt apply "$PWD/seeded/$id/patch.diff" || { echo "$id: patch does not apply"; continue; }
  mkdir -p $out
  line="$id:"
  for p in $props; do
    o=$(VERIF_SEED=1 VERIF_REPO=$wt VERIF_OUT=$out ./run.sh $p quick 2>&1); rc=$?
    case $rc in 0) r=ok;; 1) r=VIOL;; *) r=rc$rc;; esac
    line="$line $p=$r"
  done
  echo "$line"
  git -C /repo worktree remove --force $wt; rm -rf $out
done
