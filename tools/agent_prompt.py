#!/usr/bin/env python3
"""Writes the prompt given to a fresh sub-agent that seeds a break of one property.
The prompt contains only the property text and the path of the agent's own scratch worktree; nothing from /verif.
usage: agent_prompt.py <Cxx> [<suffix>]   -> /tmp/wt/<Cxx><suffix>-prompt.txt (worktree /tmp/wt/<Cxx><suffix>)"""
import json, sys
props = {json.loads(l)['id']: json.loads(l) for l in open('/verif/properties.jsonl')}
T = open('/verif/tools/agent_prompt_template.txt').read()
pid = sys.argv[1]; suf = sys.argv[2] if len(sys.argv) > 2 else ''
extra = sys.argv[3] if len(sys.argv) > 3 else ''
p = props[pid]
s = T.format(wt=f'/tmp/wt/{pid}{suf}', out=f'/tmp/wt/{pid}{suf}-out', title=p['title'], statement=p['statement'], quant=p['quantifier']['text'], pid=pid, extra=extra)
open(f'/tmp/wt/{pid}{suf}-prompt.txt', 'w').write(s)
print(f'/tmp/wt/{pid}{suf}-prompt.txt')
