#!/bin/bash
# usage: try_seeded_inplace.sh <patch.diff> <tier> <Cxx> [<Cxx>...]
# The prescribed way: applies a seeded change to /repo itself, runs the checks, and undoes the change straight afterwards.
# Evidence goes to a scratch VERIF_OUT so that the committed evidence files are not overwritten by a violating run.
set -u
patch=$(realpath "$1"); tier=$2; shift 2
cd /verif
if ! git -C /repo diff --quiet; then echo "/repo has uncommitted changes; refusing"; exit 2; fi
git -C /repo apply "$patch" || { echo "patch does not apply"; exit 2; }
out=/tmp/wt/inplace-$$-out; mkdir -p $out
trap 'git -C /repo checkout -- . ; rm -rf '$out'; echo "(reverted /repo)"' EXIT
for p in "$@"; do
  o=$(VERIF_SEED=${VERIF_SEED:-1} VERIF_OUT=$out ./run.sh "$p" "$tier" 2>&1); rc=$?
  echo "== $p $tier exit=$rc"; echo "$o" | grep -E "^(VIOLATION|KNOWN|INCONCLUSIVE|OK|BUILD|  case)" | head -6 | cut -c1-400
done
