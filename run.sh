#!/bin/bash
# Single entry point of the verification machinery.
#   run.sh setup                      build all flavours of the harness (offline)
#   run.sh <Cxx> <quick|thorough>     run one property check (rebuilds the harness against /repo's working tree)
#   run.sh replay <file>              re-execute the failing case described by a replay file
#   run.sh baseline-off               run the repository's own test suite with the verif guard OFF
set -u
cd "$(dirname "$0")"
export VERIF_HOME="$PWD"
# VERIF_OUT (optional): write work/, replays/ and evidence/ there instead of here (used for runs against seeded changes)
export VERIF_ROOT="${VERIF_OUT:-$PWD}"
export GOFLAGS=-mod=mod GOPROXY=off GOSUMDB=off GOTOOLCHAIN=local
GO=/root/go/pkg/mod/golang.org/toolchain@v0.0.1-go1.24.0.linux-amd64/bin/go
if [ ! -x "$GO" ]; then GO=$(command -v go1.26.8 || command -v go); fi
mkdir -p "$VERIF_ROOT/work" "$VERIF_ROOT/replays" "$VERIF_ROOT/evidence"
BIN="$VERIF_ROOT/work/bin"; mkdir -p "$BIN"

# VERIF_REPO (optional): build against another checkout of onflow/atree instead of /repo (scratch worktrees with a
# seeded change). Registered checks never set it: they always rebuild from /repo's current working tree.
MODFLAG=""
if [ -n "${VERIF_REPO:-}" ]; then
  sed "s#=> /repo#=> $VERIF_REPO#" harness/go.mod > "$VERIF_ROOT/work/alt.mod"
  cp harness/go.sum "$VERIF_ROOT/work/alt.sum"
  MODFLAG="-modfile=$VERIF_ROOT/work/alt.mod"
fi

build() { # $1 = output name, rest = extra flags
  local out=$1; shift
  (cd harness && "$GO" build $MODFLAG -tags verif "$@" -o "$BIN/$out" . ) 2> "$VERIF_ROOT/work/build-$out.log"
  local rc=$?
  if [ $rc -ne 0 ]; then
    echo "BUILD-FAILED flavour=$out (see work/build-$out.log)"; head -30 "$VERIF_ROOT/work/build-$out.log"
    return 1
  fi
  return 0
}

case "${1:-}" in
  setup)
    build verif || exit 2
    build verif-race -race || exit 2
    echo "setup ok"
    ;;
  replay)
    build verif || exit 2
    prop=$(python3 -c "import json,sys;print(json.load(open(sys.argv[1]))['property'])" "$2" 2>/dev/null)
    bin="$BIN/verif"
    if "$BIN/verif" list | grep -q "^$prop true"; then build verif-race -race || exit 2; bin="$BIN/verif-race"; fi
    exec "$bin" replay "$2"
    ;;
  baseline-off)
    cd /repo && exec "$GO" test -vet=off -count=1 -timeout 25m ./...
    ;;
  C[0-9][0-9])
    prop=$1; tier=${2:-quick}
    build verif || exit 2
    bin="$BIN/verif"
    if "$BIN/verif" list | grep -q "^$prop true"; then build verif-race -race || exit 2; bin="$BIN/verif-race"; fi
    exec "$bin" run --prop "$prop" --tier "$tier"
    ;;
  *)
    echo "usage: run.sh setup | <Cxx> <quick|thorough> | replay <file> | baseline-off"; exit 2
    ;;
esac
