#!/bin/bash
# Single entry point of the verification machinery.
#   run.sh setup                      build all flavours of the harness (offline)
#   run.sh <Cxx> <quick|thorough>     run one property check (rebuilds the harness against /repo's working tree)
#   run.sh replay <file>              re-execute the failing case described by a replay file
#   run.sh baseline-off               run the repository's own test suite with the verif guard OFF
set -u
cd "$(dirname "$0")"
export VERIF_ROOT="$PWD"
export GOFLAGS=-mod=mod GOPROXY=off GOSUMDB=off GOTOOLCHAIN=local
GO=/root/go/pkg/mod/golang.org/toolchain@v0.0.1-go1.24.0.linux-amd64/bin/go
if [ ! -x "$GO" ]; then GO=$(command -v go1.26.8 || command -v go); fi
mkdir -p work replays evidence

build() { # $1 = output name, rest = extra flags
  local out=$1; shift
  (cd harness && "$GO" build -tags verif "$@" -o "$out" . ) 2> work/build-$out.log
  local rc=$?
  if [ $rc -ne 0 ]; then
    echo "BUILD-FAILED flavour=$out (see work/build-$out.log)"; head -30 work/build-$out.log
    return 1
  fi
  return 0
}

case "${1:-}" in
  setup)
    build verif || exit 2
    build verif-race -race || exit 2
    echo "setup ok"
    ;;
  replay)
    build verif || exit 2
    prop=$(python3 -c "import json,sys;print(json.load(open(sys.argv[1]))['property'])" "$2" 2>/dev/null)
    bin=./harness/verif
    if ./harness/verif list | grep -q "^$prop true"; then build verif-race -race || exit 2; bin=./harness/verif-race; fi
    exec $bin replay "$2"
    ;;
  baseline-off)
    cd /repo && exec "$GO" test -vet=off -count=1 -timeout 25m ./...
    ;;
  C[0-9][0-9])
    prop=$1; tier=${2:-quick}
    build verif || exit 2
    bin=./harness/verif
    if ./harness/verif list | grep -q "^$prop true"; then build verif-race -race || exit 2; bin=./harness/verif-race; fi
    exec $bin run --prop "$prop" --tier "$tier"
    ;;
  *)
    echo "usage: run.sh setup | <Cxx> <quick|thorough> | replay <file> | baseline-off"; exit 2
    ;;
esac
