package main

import (
	"errors"
	"fmt"
	"hash/fnv"
	"sort"
	"sync/atomic"

	"github.com/onflow/atree"
)

// ErrInjected is the sentinel returned by every injected ledger fault.
var ErrInjected = errors.New("verif: injected ledger fault")

// LedgerCall is one entry of the ordered call log of the ledger proxy.
type LedgerCall struct {
	Seq      int
	Kind     byte // 'S' store, 'D' delete, 'R' retrieve, 'G' generate id
	ID       atree.SlabID
	Len      int
	Hash     uint64
	InCommit bool
	Failed   bool
}

// Ledger is the harness' own atree.BaseStorage: registers, per-address slab index
// counters, an ordered call log, and fault plans.
type Ledger struct {
	regs  map[atree.SlabID][]byte
	index map[atree.Address]uint64

	log      []LedgerCall
	logOn    bool
	inCommit bool

	// counters since last ResetFaultCounters
	writeNo    int // Store+Remove calls
	retrieveNo int

	// fault plans; nil = no fault.
	// FailWrite decides for the n-th (1-based) write/delete since the last reset:
	// fail=true makes the call return ErrInjected; apply=true applies the effect anyway (ambiguous failure).
	FailWrite    func(n int, kind byte, id atree.SlabID) (fail bool, apply bool)
	FailRetrieve func(n int, id atree.SlabID) bool
	FailGenerate func() bool

	Jitter func() // called inside every call when set

	// violations observed by the ledger itself (M-quiet)
	QuietViolations []string

	bytesRetrieved, bytesStored int

	// viaAPI: storages created over this ledger reach it through the library's own register adapter
	// (atree.NewLedgerBaseStorage over the owner/key interface) instead of using it as the BaseStorage directly
	viaAPI bool

	// noCopy: the ledger keeps the very slice a Store call hands it and hands out its own slice on Retrieve (as a
	// naive BaseStorage such as test_utils.InMemBaseStorage does). A library that gives the ledger bytes it later reuses
	// (a pooled encode buffer), or that scribbles over the bytes it is given to decode, then corrupts registers - which the
	// byte-level and cold monitors see. With noCopy off the ledger copies on both paths.
	noCopy bool
}

// ledgerNoCopy is set per case (runCase) like ledgerViaAPI.
var ledgerNoCopy bool

// ledgerViaAPI is set per case (runCase): every Ledger created while it is true sits behind atree.LedgerBaseStorage.
var ledgerViaAPI bool

// ledgerAPICalls counts register accesses that went through atree.LedgerBaseStorage (evidence counter; atomic because
// C16 runs private storages on several goroutines).
var ledgerAPICalls atomic.Int64

// ledgerAPI exposes a Ledger through the owner/key register interface (atree.Ledger). It decodes the register key
// on its own ("$" followed by the 8 index bytes), so a wrong key derivation in the library shows up as content filed
// under the wrong identifier, a key it does not recognise as an M-quiet violation.
type ledgerAPI struct{ l *Ledger }

var _ atree.Ledger = &ledgerAPI{}

func (a *ledgerAPI) id(owner, key []byte) (atree.SlabID, bool) {
	ledgerAPICalls.Add(1)
	if len(owner) != 8 || len(key) != 9 || key[0] != '$' {
		a.l.QuietViolations = append(a.l.QuietViolations, fmt.Sprintf("register access with malformed owner/key: owner=%x key=%q", owner, key))
		return atree.SlabID{}, false
	}
	if !atree.LedgerKeyIsSlabKey(string(key)) {
		a.l.QuietViolations = append(a.l.QuietViolations, fmt.Sprintf("LedgerKeyIsSlabKey rejects the slab register key %q", key))
	}
	var ad atree.Address
	var ix atree.SlabIndex
	copy(ad[:], owner)
	copy(ix[:], key[1:])
	return atree.NewSlabID(ad, ix), true
}

func (a *ledgerAPI) GetValue(owner, key []byte) ([]byte, error) {
	id, ok := a.id(owner, key)
	if !ok {
		return nil, nil
	}
	v, _, err := a.l.Retrieve(id)
	return v, err
}

func (a *ledgerAPI) SetValue(owner, key, value []byte) error {
	id, ok := a.id(owner, key)
	if !ok {
		return nil
	}
	if len(value) == 0 {
		return a.l.Remove(id)
	}
	return a.l.Store(id, value)
}

func (a *ledgerAPI) ValueExists(owner, key []byte) (bool, error) {
	id, ok := a.id(owner, key)
	if !ok {
		return false, nil
	}
	_, found := a.l.regs[id]
	return found, nil
}

func (a *ledgerAPI) AllocateSlabIndex(owner []byte) (atree.SlabIndex, error) {
	var ad atree.Address
	copy(ad[:], owner)
	id, err := a.l.GenerateSlabID(ad)
	if err != nil {
		return atree.SlabIndex{}, err
	}
	return id.Index(), nil
}

var _ atree.BaseStorage = &Ledger{}

func NewLedger() *Ledger {
	return &Ledger{
		regs:   make(map[atree.SlabID][]byte),
		index:  make(map[atree.Address]uint64),
		viaAPI: ledgerViaAPI,
		noCopy: ledgerNoCopy,
	}
}

func NewLedgerFrom(regs map[atree.SlabID][]byte, index map[atree.Address]uint64) *Ledger {
	l := NewLedger()
	for k, v := range regs {
		l.regs[k] = v
	}
	for k, v := range index {
		l.index[k] = v
	}
	return l
}

func hashBytes(b []byte) uint64 {
	h := fnv.New64a()
	_, _ = h.Write(b)
	return h.Sum64()
}

func (l *Ledger) record(kind byte, id atree.SlabID, data []byte, failed bool) {
	if !l.logOn {
		return
	}
	c := LedgerCall{Seq: len(l.log), Kind: kind, ID: id, Len: len(data), InCommit: l.inCommit, Failed: failed}
	if data != nil {
		c.Hash = hashBytes(data)
	}
	l.log = append(l.log, c)
}

func (l *Ledger) quiet(kind string, id atree.SlabID) {
	if kind != "store" && kind != "remove" {
		return
	}
	if id.Address() == atree.AddressUndefined {
		l.QuietViolations = append(l.QuietViolations, "ledger "+kind+" with temporary (zero) address: "+id.String())
	}
	if !l.inCommit {
		l.QuietViolations = append(l.QuietViolations, "ledger "+kind+" outside a commit call: "+id.String())
	}
}

func (l *Ledger) Store(id atree.SlabID, data []byte) error {
	if l.Jitter != nil {
		l.Jitter()
	}
	l.quiet("store", id)
	l.writeNo++
	if l.FailWrite != nil {
		if fail, apply := l.FailWrite(l.writeNo, 'S', id); fail {
			if apply {
				l.regs[id] = append([]byte(nil), data...)
			}
			l.record('S', id, data, true)
			return ErrInjected
		}
	}
	if l.noCopy {
		l.regs[id] = data
	} else {
		l.regs[id] = append([]byte(nil), data...)
	}
	l.bytesStored += len(data)
	l.record('S', id, data, false)
	return nil
}

func (l *Ledger) Remove(id atree.SlabID) error {
	if l.Jitter != nil {
		l.Jitter()
	}
	l.quiet("remove", id)
	l.writeNo++
	if l.FailWrite != nil {
		if fail, apply := l.FailWrite(l.writeNo, 'D', id); fail {
			if apply {
				delete(l.regs, id)
			}
			l.record('D', id, nil, true)
			return ErrInjected
		}
	}
	delete(l.regs, id)
	l.record('D', id, nil, false)
	return nil
}

func (l *Ledger) Retrieve(id atree.SlabID) ([]byte, bool, error) {
	if l.Jitter != nil {
		l.Jitter()
	}
	l.quiet("retrieve", id)
	l.retrieveNo++
	if l.FailRetrieve != nil && l.FailRetrieve(l.retrieveNo, id) {
		l.record('R', id, nil, true)
		return nil, false, ErrInjected
	}
	data, ok := l.regs[id]
	l.record('R', id, nil, false)
	if !ok {
		return nil, false, nil
	}
	l.bytesRetrieved += len(data)
	if l.noCopy {
		return data, true, nil
	}
	return append([]byte(nil), data...), true, nil
}

func (l *Ledger) GenerateSlabID(address atree.Address) (atree.SlabID, error) {
	if l.FailGenerate != nil && l.FailGenerate() {
		return atree.SlabID{}, ErrInjected
	}
	l.index[address]++
	var idx atree.SlabIndex
	putUint64(idx[:], l.index[address])
	id := atree.NewSlabID(address, idx)
	l.record('G', id, nil, false)
	return id, nil
}

func putUint64(b []byte, v uint64) {
	for i := 7; i >= 0; i-- {
		b[i] = byte(v)
		v >>= 8
	}
}

func getUint64(b []byte) uint64 {
	var v uint64
	for i := 0; i < 8; i++ {
		v = v<<8 | uint64(b[i])
	}
	return v
}

func (l *Ledger) SegmentCounts() int { return len(l.regs) }
func (l *Ledger) Size() int {
	t := 0
	for _, v := range l.regs {
		t += len(v)
	}
	return t
}
func (l *Ledger) BytesRetrieved() int   { return l.bytesRetrieved }
func (l *Ledger) BytesStored() int      { return l.bytesStored }
func (l *Ledger) SegmentsReturned() int { return 0 }
func (l *Ledger) SegmentsUpdated() int  { return 0 }
func (l *Ledger) SegmentsTouched() int  { return 0 }
func (l *Ledger) ResetReporter()        { l.bytesRetrieved, l.bytesStored = 0, 0 }

func (l *Ledger) ResetFaultCounters() { l.writeNo, l.retrieveNo = 0, 0 }

// Snapshot returns a shallow copy of the register map (values are never mutated in place).
func (l *Ledger) Snapshot() map[atree.SlabID][]byte {
	out := make(map[atree.SlabID][]byte, len(l.regs))
	for k, v := range l.regs {
		out[k] = v
	}
	return out
}

func (l *Ledger) IndexSnapshot() map[atree.Address]uint64 {
	out := make(map[atree.Address]uint64, len(l.index))
	for k, v := range l.index {
		out[k] = v
	}
	return out
}

func sortedIDs(m map[atree.SlabID][]byte) []atree.SlabID {
	ids := make([]atree.SlabID, 0, len(m))
	for id := range m {
		ids = append(ids, id)
	}
	sort.Slice(ids, func(i, j int) bool { return ids[i].Compare(ids[j]) < 0 })
	return ids
}

// regsDigest is an order-independent digest of a register map.
func regsDigest(m map[atree.SlabID][]byte) uint64 {
	h := fnv.New64a()
	var b [16]byte
	for _, id := range sortedIDs(m) {
		_, _ = id.ToRawBytes(b[:])
		_, _ = h.Write(b[:])
		var lb [8]byte
		putUint64(lb[:], uint64(len(m[id])))
		_, _ = h.Write(lb[:])
		_, _ = h.Write(m[id])
	}
	return h.Sum64()
}

// diffRegs describes the first few differences between two register maps.
func diffRegs(a, b map[atree.SlabID][]byte) []string {
	var out []string
	for _, id := range sortedIDs(a) {
		vb, ok := b[id]
		if !ok {
			out = append(out, "only in first: "+id.String())
		} else if string(vb) != string(a[id]) {
			out = append(out, "differs: "+id.String())
		}
		if len(out) >= 8 {
			return out
		}
	}
	for _, id := range sortedIDs(b) {
		if _, ok := a[id]; !ok {
			out = append(out, "only in second: "+id.String())
		}
		if len(out) >= 8 {
			return out
		}
	}
	return out
}

// StorageProxy wraps the real storage as seen by containers and records what they do.
type StorageProxy struct {
	Inner *atree.PersistentSlabStorage

	Universe map[atree.SlabID]struct{} // every id ever generated through this proxy

	// per-operation counters, reset by BeginOp
	OpStores    int
	OpRemoves   int
	OpGenerates int
	OpStoreIDs  []atree.SlabID
	OpRemoveIDs []atree.SlabID

	TotalGenerates int
	TotalRemoves   int
}

var _ atree.SlabStorage = &StorageProxy{}

func NewStorageProxy(inner *atree.PersistentSlabStorage) *StorageProxy {
	return &StorageProxy{Inner: inner, Universe: make(map[atree.SlabID]struct{})}
}

func (p *StorageProxy) BeginOp() {
	p.OpStores, p.OpRemoves, p.OpGenerates = 0, 0, 0
	p.OpStoreIDs = p.OpStoreIDs[:0]
	p.OpRemoveIDs = p.OpRemoveIDs[:0]
}

func (p *StorageProxy) Store(id atree.SlabID, slab atree.Slab) error {
	p.OpStores++
	p.OpStoreIDs = append(p.OpStoreIDs, id)
	p.Universe[id] = struct{}{}
	return p.Inner.Store(id, slab)
}

func (p *StorageProxy) Retrieve(id atree.SlabID) (atree.Slab, bool, error) {
	return p.Inner.Retrieve(id)
}

func (p *StorageProxy) RetrieveIfLoaded(id atree.SlabID) atree.Slab {
	return p.Inner.RetrieveIfLoaded(id)
}

func (p *StorageProxy) Remove(id atree.SlabID) error {
	p.OpRemoves++
	p.TotalRemoves++
	p.OpRemoveIDs = append(p.OpRemoveIDs, id)
	return p.Inner.Remove(id)
}

func (p *StorageProxy) GenerateSlabID(address atree.Address) (atree.SlabID, error) {
	id, err := p.Inner.GenerateSlabID(address)
	if err == nil {
		p.OpGenerates++
		p.TotalGenerates++
		p.Universe[id] = struct{}{}
	}
	return id, err
}

func (p *StorageProxy) Count() int { return p.Inner.Count() }

func (p *StorageProxy) SlabIterator() (atree.SlabIterator, error) { return p.Inner.SlabIterator() }
