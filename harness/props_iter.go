package main

import (
	"fmt"

	"github.com/onflow/atree"
)

// C13, iterator OBJECTS: the callback flavours (Iterate*, checked in props_more.go) are thin loops over iterator objects; a
// client may also hold the object itself, call Next / NextKey / NextValue in any mix, keep calling after the end, pass
// mutation callbacks, and enumerate nested (inlined) containers. All of that must yield the canonical sequence.

// drainArrayIterator drains it through Next and compares with n.Elems[from:to]; Next after the end must keep saying "end".
func (w *World) drainArrayIterator(name string, n *Node, it atree.ArrayIterator, err error, from, to uint64) error {
	if err != nil {
		return viol("iter", "%s: creating the iterator failed: %v", name, err)
	}
	cmp := &cmpCtx{storage: w.st, cb: w.cb}
	i := from
	for {
		v, err := it.Next()
		if err != nil {
			return viol("iter", "%s: Next failed at position %d: %v", name, i, err)
		}
		if v == nil {
			break
		}
		if i >= to {
			return viol("iter", "%s yields more than %d elements", name, to-from)
		}
		if err := cmp.shallowEquals(v, n.Elems[i], fmt.Sprintf("%s element %d", name, i)); err != nil {
			return viol("iter", "%v", err)
		}
		i++
	}
	if i != to {
		return viol("iter", "%s yielded %d elements, expected %d", name, i-from, to-from)
	}
	for k := 0; k < 2; k++ {
		if v, err := it.Next(); err != nil || v != nil {
			return viol("iter", "%s: Next after the end returned (%v, %v)", name, v, err)
		}
	}
	w.stats.Extra["iterator-objects-drained"]++
	return nil
}

// checkArrayIteratorObjects enumerates array n through handle a with every iterator-object flavour.
func (w *World) checkArrayIteratorObjects(n *Node, a *atree.Array) error {
	L := uint64(len(n.Elems))
	called := 0
	cb := func(atree.Value) { called++ }
	it, err := a.Iterator()
	if err := w.drainArrayIterator("Array.Iterator", n, it, err, 0, L); err != nil {
		return err
	}
	it, err = a.ReadOnlyIterator()
	if err := w.drainArrayIterator("Array.ReadOnlyIterator", n, it, err, 0, L); err != nil {
		return err
	}
	it, err = a.ReadOnlyIteratorWithMutationCallback(cb)
	if err := w.drainArrayIterator("Array.ReadOnlyIteratorWithMutationCallback", n, it, err, 0, L); err != nil {
		return err
	}
	lit, err := a.ReadOnlyLoadedValueIterator()
	if err := w.drainArrayIterator("Array.ReadOnlyLoadedValueIterator", n, lit, err, 0, L); err != nil {
		return err
	}
	// callback flavours with a mutation callback
	i := uint64(0)
	cmp := &cmpCtx{storage: w.st, cb: w.cb}
	var inner error
	err = a.IterateReadOnlyWithMutationCallback(func(v atree.Value) (bool, error) {
		if i >= L {
			inner = viol("iter", "Array.IterateReadOnlyWithMutationCallback yields more than %d elements", L)
			return false, nil
		}
		if err := cmp.shallowEquals(v, n.Elems[i], fmt.Sprintf("Array.IterateReadOnlyWithMutationCallback element %d", i)); err != nil {
			inner = viol("iter", "%v", err)
			return false, nil
		}
		i++
		return true, nil
	}, cb)
	if inner != nil {
		return inner
	}
	if err != nil || i != L {
		return viol("iter", "Array.IterateReadOnlyWithMutationCallback: %d of %d elements, error %v", i, L, err)
	}
	// ranges
	var pairs [][2]uint64
	if L <= 6 {
		for s := uint64(0); s <= L; s++ {
			for e := s; e <= L; e++ {
				pairs = append(pairs, [2]uint64{s, e})
			}
		}
	} else {
		cands := []uint64{0, 1, L / 2, L - 1, L}
		if n.Parent == nil {
			for _, b := range w.bounds {
				if b <= L {
					cands = append(cands, b)
					if b > 0 {
						cands = append(cands, b-1)
					}
				}
			}
		}
		for k := 0; k < 8; k++ {
			s := cands[w.rng.Intn(len(cands))]
			e := cands[w.rng.Intn(len(cands))]
			if s > e {
				s, e = e, s
			}
			pairs = append(pairs, [2]uint64{s, e})
		}
	}
	for _, p := range pairs {
		s, e := p[0], p[1]
		it, err = a.RangeIterator(s, e)
		if err := w.drainArrayIterator(fmt.Sprintf("Array.RangeIterator(%d,%d)", s, e), n, it, err, s, e); err != nil {
			return err
		}
		it, err = a.ReadOnlyRangeIterator(s, e)
		if err := w.drainArrayIterator(fmt.Sprintf("Array.ReadOnlyRangeIterator(%d,%d)", s, e), n, it, err, s, e); err != nil {
			return err
		}
		it, err = a.ReadOnlyRangeIteratorWithMutationCallback(s, e, cb)
		if err := w.drainArrayIterator(fmt.Sprintf("Array.ReadOnlyRangeIteratorWithMutationCallback(%d,%d)", s, e), n, it, err, s, e); err != nil {
			return err
		}
		j := s
		inner = nil
		err = a.IterateReadOnlyRangeWithMutationCallback(s, e, func(v atree.Value) (bool, error) {
			if j >= e {
				inner = viol("iter", "Array.IterateReadOnlyRangeWithMutationCallback(%d,%d) yields too many elements", s, e)
				return false, nil
			}
			if err := cmp.shallowEquals(v, n.Elems[j], fmt.Sprintf("Array.IterateReadOnlyRangeWithMutationCallback(%d,%d) element %d", s, e, j)); err != nil {
				inner = viol("iter", "%v", err)
				return false, nil
			}
			j++
			return true, nil
		}, cb)
		if inner != nil {
			return inner
		}
		if err != nil || j != e {
			return viol("iter", "Array.IterateReadOnlyRangeWithMutationCallback(%d,%d): stopped at %d, error %v", s, e, j, err)
		}
		w.stats.Extra["ranges-checked"]++
	}
	// invalid ranges through the object constructors
	for _, b := range [][2]uint64{{L + 1, L + 1}, {0, L + 1}, {L, L + 2}} {
		if _, err := a.RangeIterator(b[0], b[1]); err == nil || !isUserError(err) {
			return viol("iter-range", "RangeIterator(%d,%d) on %d elements: expected a user error, got %v", b[0], b[1], L, err)
		}
		if _, err := a.ReadOnlyRangeIterator(b[0], b[1]); err == nil || !isUserError(err) {
			return viol("iter-range", "ReadOnlyRangeIterator(%d,%d) on %d elements: expected a user error, got %v", b[0], b[1], L, err)
		}
		w.stats.Extra["invalid-ranges-rejected"]++
	}
	if L >= 1 {
		if _, err := a.RangeIterator(L, L-1); err == nil || !isUserError(err) {
			return viol("iter-range", "RangeIterator(%d,%d): expected a user error, got %v", L, L-1, err)
		}
		if _, err := a.ReadOnlyRangeIterator(L, L-1); err == nil || !isUserError(err) {
			return viol("iter-range", "ReadOnlyRangeIterator(%d,%d): expected a user error, got %v", L, L-1, err)
		}
	}
	if called != 0 {
		// nothing was mutated: counted, not judged (no property speaks about the callback)
		w.stats.Extra["mutation-callbacks-without-mutation"] += called
	}
	return nil
}

// drainMapIterator drains it in the given mode (0 Next, 1 NextKey, 2 NextValue, 3 PRNG mix) against the canonical order.
func (w *World) drainMapIterator(name string, exp []kvNode, it atree.MapIterator, err error, mode int) error {
	if err != nil {
		return viol("iter", "%s: creating the iterator failed: %v", name, err)
	}
	cmp := &cmpCtx{storage: w.st, cb: w.cb}
	i := 0
	for {
		md := mode
		if mode == 3 {
			md = w.rng.Intn(3)
		}
		var k, v atree.Value
		var err error
		switch md {
		case 0:
			k, v, err = it.Next()
		case 1:
			k, err = it.NextKey()
		default:
			v, err = it.NextValue()
		}
		if err != nil {
			return viol("iter", "%s (mode %d): failed at position %d: %v", name, mode, i, err)
		}
		if k == nil && v == nil {
			break
		}
		if i >= len(exp) {
			return viol("iter", "%s (mode %d) yields more than %d entries", name, mode, len(exp))
		}
		if md == 0 && (k == nil || v == nil) {
			return viol("iter", "%s: Next at position %d returned key %v value %v", name, i, k, v)
		}
		if k != nil && !scalarEqual(k, exp[i].k) {
			return viol("iter", "%s (mode %d) position %d: key %v, expected %s (canonical order: digest vector, then insertion order)", name, mode, i, k, exp[i].k)
		}
		if v != nil {
			if err := cmp.shallowEquals(v, exp[i].v, fmt.Sprintf("%s (mode %d) value %d", name, mode, i)); err != nil {
				return viol("iter", "%v", err)
			}
		}
		i++
	}
	if i != len(exp) {
		return viol("iter", "%s (mode %d) yielded %d entries, expected %d", name, mode, i, len(exp))
	}
	for r := 0; r < 2; r++ {
		if k, v, err := it.Next(); err != nil || k != nil || v != nil {
			return viol("iter", "%s: Next after the end returned (%v, %v, %v)", name, k, v, err)
		}
		if k, err := it.NextKey(); err != nil || k != nil {
			return viol("iter", "%s: NextKey after the end returned (%v, %v)", name, k, err)
		}
		if v, err := it.NextValue(); err != nil || v != nil {
			return viol("iter", "%s: NextValue after the end returned (%v, %v)", name, v, err)
		}
	}
	w.stats.Extra["iterator-objects-drained"]++
	if mode == 3 {
		w.stats.Extra["mixed-next-drains"]++
	}
	return nil
}

func (w *World) checkMapIteratorObjects(n *Node, m *atree.OrderedMap) error {
	exp, err := w.expectedMapOrder(n)
	if err != nil {
		return err
	}
	called := 0
	cb := func(atree.Value) { called++ }
	for mode := 0; mode < 4; mode++ {
		it, err := m.Iterator(w.cb.Compare, w.cb.HashInput)
		if err := w.drainMapIterator("Map.Iterator", exp, it, err, mode); err != nil {
			return err
		}
		it, err = m.ReadOnlyIterator()
		if err := w.drainMapIterator("Map.ReadOnlyIterator", exp, it, err, mode); err != nil {
			return err
		}
		it, err = m.ReadOnlyIteratorWithMutationCallback(cb, cb)
		if err := w.drainMapIterator("Map.ReadOnlyIteratorWithMutationCallback", exp, it, err, mode); err != nil {
			return err
		}
		lit, err := m.ReadOnlyLoadedValueIterator()
		if err := w.drainMapIterator("Map.ReadOnlyLoadedValueIterator", exp, lit, err, mode); err != nil {
			return err
		}
	}
	// callback flavours with mutation callbacks
	cmp := &cmpCtx{storage: w.st, cb: w.cb}
	run := func(name string, keys, vals bool, do func(fe atree.MapEntryIterationFunc, f1 atree.MapElementIterationFunc) error) error {
		i := 0
		var inner error
		visit := func(k, v atree.Value) bool {
			if i >= len(exp) {
				inner = viol("iter", "%s yields more than %d entries", name, len(exp))
				return false
			}
			if k != nil && !scalarEqual(k, exp[i].k) {
				inner = viol("iter", "%s position %d: key %v, expected %s", name, i, k, exp[i].k)
				return false
			}
			if v != nil {
				if err := cmp.shallowEquals(v, exp[i].v, fmt.Sprintf("%s value %d", name, i)); err != nil {
					inner = viol("iter", "%v", err)
					return false
				}
			}
			i++
			return true
		}
		err := do(func(k, v atree.Value) (bool, error) { return visit(k, v), nil },
			func(x atree.Value) (bool, error) {
				if keys {
					return visit(x, nil), nil
				}
				return visit(nil, x), nil
			})
		if inner != nil {
			return inner
		}
		if err != nil || i != len(exp) {
			return viol("iter", "%s: %d of %d entries, error %v", name, i, len(exp), err)
		}
		w.stats.Extra["iterations-checked"]++
		return nil
	}
	if err := run("Map.IterateReadOnlyWithMutationCallback", true, true, func(fe atree.MapEntryIterationFunc, _ atree.MapElementIterationFunc) error {
		return m.IterateReadOnlyWithMutationCallback(fe, cb, cb)
	}); err != nil {
		return err
	}
	if err := run("Map.IterateReadOnlyKeysWithMutationCallback", true, false, func(_ atree.MapEntryIterationFunc, f1 atree.MapElementIterationFunc) error {
		return m.IterateReadOnlyKeysWithMutationCallback(f1, cb)
	}); err != nil {
		return err
	}
	if err := run("Map.IterateReadOnlyValuesWithMutationCallback", false, true, func(_ atree.MapEntryIterationFunc, f1 atree.MapElementIterationFunc) error {
		return m.IterateReadOnlyValuesWithMutationCallback(f1, cb)
	}); err != nil {
		return err
	}
	if called != 0 {
		w.stats.Extra["mutation-callbacks-without-mutation"] += called
	}
	return nil
}

// checkIteratorObjects runs the iterator-object flavours on the root (fresh handle) and on up to two nested containers
// (through their canonical handles - an inlined child cannot be opened by id).
func (w *World) checkIteratorObjects(root *Node) error {
	if err := w.handle(root); err != nil {
		return err
	}
	v, err := w.freshRoot(root, w.st)
	if err != nil {
		return err
	}
	if root.Kind == KArr {
		if err := w.checkArrayIteratorObjects(root, v.(*atree.Array)); err != nil {
			return err
		}
	} else {
		if err := w.checkMapIteratorObjects(root, v.(*atree.OrderedMap)); err != nil {
			return err
		}
	}
	for k := 0; k < 2; k++ {
		n := w.pickContainer(root, 100)
		if n == root {
			continue
		}
		if err := w.handle(n); err != nil {
			return err
		}
		w.stats.Extra["nested-containers-enumerated"]++
		if n.Kind == KArr {
			if err := w.checkArrayIteratorObjects(n, n.Arr); err != nil {
				return err
			}
			// the callback flavours of props_more.go on the nested container, too
			i := 0
			cmp := &cmpCtx{storage: w.st, cb: w.cb}
			var inner error
			for _, ro := range []bool{false, true} {
				i = 0
				fn := func(v atree.Value) (bool, error) {
					if i >= len(n.Elems) {
						inner = viol("iter", "nested array %s: iteration yields more than %d elements", n, len(n.Elems))
						return false, nil
					}
					if err := cmp.shallowEquals(v, n.Elems[i], fmt.Sprintf("nested array %s element %d", n, i)); err != nil {
						inner = viol("iter", "%v", err)
						return false, nil
					}
					i++
					return true, nil
				}
				var err error
				if ro {
					err = n.Arr.IterateReadOnly(fn)
				} else {
					err = n.Arr.Iterate(fn)
				}
				if inner != nil {
					return inner
				}
				if err != nil || i != len(n.Elems) {
					return viol("iter", "nested array %s (read-only=%v): %d of %d elements, error %v", n, ro, i, len(n.Elems), err)
				}
			}
		} else {
			if err := w.checkMapIteratorObjects(n, n.Map); err != nil {
				return err
			}
		}
	}
	return nil
}

// checkColdFlavours runs every full-enumeration flavour on its own, each on a storage of its own that has loaded
// nothing (even flavours) or a PRNG half of the registers (odd flavours) before the enumeration starts: a flavour
// that only works once another flavour (or a lookup) has brought the slabs of oversized keys / elements into memory
// is invisible when the flavours run one after another on the same storage.
func (w *World) checkColdFlavours(root *Node, regs map[atree.SlabID][]byte) error {
	id := rootID(root)
	ids := sortedIDs(regs)
	fresh := func(k int) (*atree.PersistentSlabStorage, error) {
		ps := newStorage(NewLedgerFrom(regs, nil))
		if k%2 == 1 {
			for _, x := range ids {
				if x != id && w.rng.Intn(2) == 0 {
					if _, _, err := ps.Retrieve(x); err != nil {
						return nil, viol("iter-cold", "loading %s failed: %v", x, err)
					}
				}
			}
		}
		return ps, nil
	}
	nopCb := func(atree.Value) {}
	defer func() { w.stats.Extra["cold-flavour-rounds"]++ }()
	if root.Kind == KArr {
		L := uint64(len(root.Elems))
		s, e := uint64(0), L
		if L > 2 {
			s = uint64(w.rng.Intn(int(L / 2)))
			e = s + uint64(w.rng.Intn(int(L-s))) + 1
		}
		type drv struct {
			name     string
			from, to uint64
			run      func(a *atree.Array, emit func(atree.Value) bool) error
		}
		cbf := func(emit func(atree.Value) bool) atree.ArrayIterationFunc {
			return func(v atree.Value) (bool, error) { return emit(v), nil }
		}
		drain := func(it atree.ArrayIterator, err error, emit func(atree.Value) bool) error {
			if err != nil {
				return err
			}
			for {
				v, err := it.Next()
				if err != nil {
					return err
				}
				if v == nil || !emit(v) {
					return nil
				}
			}
		}
		drvs := []drv{
			{"Array.Iterate", 0, L, func(a *atree.Array, emit func(atree.Value) bool) error { return a.Iterate(cbf(emit)) }},
			{"Array.IterateReadOnly", 0, L, func(a *atree.Array, emit func(atree.Value) bool) error { return a.IterateReadOnly(cbf(emit)) }},
			{"Array.IterateReadOnlyWithMutationCallback", 0, L, func(a *atree.Array, emit func(atree.Value) bool) error {
				return a.IterateReadOnlyWithMutationCallback(cbf(emit), nopCb)
			}},
			{"Array.IterateRange", s, e, func(a *atree.Array, emit func(atree.Value) bool) error { return a.IterateRange(s, e, cbf(emit)) }},
			{"Array.IterateReadOnlyRange", s, e, func(a *atree.Array, emit func(atree.Value) bool) error {
				return a.IterateReadOnlyRange(s, e, cbf(emit))
			}},
			{"Array.IterateReadOnlyRangeWithMutationCallback", s, e, func(a *atree.Array, emit func(atree.Value) bool) error {
				return a.IterateReadOnlyRangeWithMutationCallback(s, e, cbf(emit), nopCb)
			}},
			{"Array.Iterator", 0, L, func(a *atree.Array, emit func(atree.Value) bool) error {
				it, err := a.Iterator()
				return drain(it, err, emit)
			}},
			{"Array.ReadOnlyIterator", 0, L, func(a *atree.Array, emit func(atree.Value) bool) error {
				it, err := a.ReadOnlyIterator()
				return drain(it, err, emit)
			}},
			{"Array.ReadOnlyIteratorWithMutationCallback", 0, L, func(a *atree.Array, emit func(atree.Value) bool) error {
				it, err := a.ReadOnlyIteratorWithMutationCallback(nopCb)
				return drain(it, err, emit)
			}},
			{"Array.RangeIterator", s, e, func(a *atree.Array, emit func(atree.Value) bool) error {
				it, err := a.RangeIterator(s, e)
				return drain(it, err, emit)
			}},
			{"Array.ReadOnlyRangeIterator", s, e, func(a *atree.Array, emit func(atree.Value) bool) error {
				it, err := a.ReadOnlyRangeIterator(s, e)
				return drain(it, err, emit)
			}},
			{"Array.ReadOnlyRangeIteratorWithMutationCallback", s, e, func(a *atree.Array, emit func(atree.Value) bool) error {
				it, err := a.ReadOnlyRangeIteratorWithMutationCallback(s, e, nopCb)
				return drain(it, err, emit)
			}},
		}
		for k, d := range drvs {
			ps, err := fresh(k)
			if err != nil {
				return err
			}
			a, err := atree.NewArrayWithRootID(ps, id)
			if err != nil {
				return viol("iter-cold", "cold open failed: %v", err)
			}
			cmp := &cmpCtx{storage: ps, cb: w.cb}
			i := d.from
			var inner error
			err = d.run(a, func(v atree.Value) bool {
				if i >= d.to {
					inner = viol("iter-cold", "%s (cold storage, range %d..%d) yields more than %d elements", d.name, d.from, d.to, d.to-d.from)
					return false
				}
				if err := cmp.shallowEquals(v, root.Elems[i], fmt.Sprintf("%s (cold storage) element %d", d.name, i)); err != nil {
					inner = viol("iter-cold", "%v", err)
					return false
				}
				i++
				return true
			})
			if inner != nil {
				return inner
			}
			if err != nil || i != d.to {
				return viol("iter-cold", "%s on a storage that had not loaded the slabs before (preload=%v): %d of %d elements, error %v", d.name, k%2 == 1, i-d.from, d.to-d.from, err)
			}
			w.stats.Extra["cold-single-flavour-iterations"]++
		}
		return nil
	}

	exp, err := w.expectedMapOrder(root)
	if err != nil {
		return err
	}
	type emitFn func(k, v atree.Value) bool
	type drv struct {
		name string
		run  func(m *atree.OrderedMap, emit emitFn) error
	}
	kv := func(emit emitFn) atree.MapEntryIterationFunc {
		return func(k, v atree.Value) (bool, error) { return emit(k, v), nil }
	}
	ko := func(emit emitFn) atree.MapElementIterationFunc {
		return func(k atree.Value) (bool, error) { return emit(k, nil), nil }
	}
	vo := func(emit emitFn) atree.MapElementIterationFunc {
		return func(v atree.Value) (bool, error) { return emit(nil, v), nil }
	}
	drain := func(it atree.MapIterator, err error, mode int, emit emitFn) error {
		if err != nil {
			return err
		}
		for {
			md := mode
			if mode == 3 {
				md = w.rng.Intn(3)
			}
			var k, v atree.Value
			switch md {
			case 0:
				k, v, err = it.Next()
			case 1:
				k, err = it.NextKey()
			default:
				v, err = it.NextValue()
			}
			if err != nil {
				return err
			}
			if (k == nil && v == nil) || !emit(k, v) {
				return nil
			}
		}
	}
	drvs := []drv{
		{"Map.Iterate", func(m *atree.OrderedMap, emit emitFn) error { return m.Iterate(w.cb.Compare, w.cb.HashInput, kv(emit)) }},
		{"Map.IterateReadOnly", func(m *atree.OrderedMap, emit emitFn) error { return m.IterateReadOnly(kv(emit)) }},
		{"Map.IterateKeys", func(m *atree.OrderedMap, emit emitFn) error {
			return m.IterateKeys(w.cb.Compare, w.cb.HashInput, ko(emit))
		}},
		{"Map.IterateReadOnlyKeys", func(m *atree.OrderedMap, emit emitFn) error { return m.IterateReadOnlyKeys(ko(emit)) }},
		{"Map.IterateValues", func(m *atree.OrderedMap, emit emitFn) error {
			return m.IterateValues(w.cb.Compare, w.cb.HashInput, vo(emit))
		}},
		{"Map.IterateReadOnlyValues", func(m *atree.OrderedMap, emit emitFn) error { return m.IterateReadOnlyValues(vo(emit)) }},
		{"Map.IterateReadOnlyWithMutationCallback", func(m *atree.OrderedMap, emit emitFn) error {
			return m.IterateReadOnlyWithMutationCallback(kv(emit), nopCb, nopCb)
		}},
		{"Map.IterateReadOnlyKeysWithMutationCallback", func(m *atree.OrderedMap, emit emitFn) error {
			return m.IterateReadOnlyKeysWithMutationCallback(ko(emit), nopCb)
		}},
		{"Map.IterateReadOnlyValuesWithMutationCallback", func(m *atree.OrderedMap, emit emitFn) error {
			return m.IterateReadOnlyValuesWithMutationCallback(vo(emit), nopCb)
		}},
	}
	for mode := 0; mode < 4; mode++ {
		mode := mode
		drvs = append(drvs,
			drv{fmt.Sprintf("Map.Iterator (mode %d)", mode), func(m *atree.OrderedMap, emit emitFn) error {
				it, err := m.Iterator(w.cb.Compare, w.cb.HashInput)
				return drain(it, err, mode, emit)
			}},
			drv{fmt.Sprintf("Map.ReadOnlyIterator (mode %d)", mode), func(m *atree.OrderedMap, emit emitFn) error {
				it, err := m.ReadOnlyIterator()
				return drain(it, err, mode, emit)
			}},
			drv{fmt.Sprintf("Map.ReadOnlyIteratorWithMutationCallback (mode %d)", mode), func(m *atree.OrderedMap, emit emitFn) error {
				it, err := m.ReadOnlyIteratorWithMutationCallback(nopCb, nopCb)
				return drain(it, err, mode, emit)
			}})
	}
	for k, d := range drvs {
		ps, err := fresh(k + w.stats.Extra["cold-flavour-rounds"]) // every flavour sees both preload modes over the rounds of a case
		if err != nil {
			return err
		}
		m, err := atree.NewMapWithRootID(ps, id, w.builderFor(root))
		if err != nil {
			return viol("iter-cold", "cold open failed: %v", err)
		}
		cmp := &cmpCtx{storage: ps, cb: w.cb}
		i := 0
		var inner error
		err = d.run(m, func(k, v atree.Value) bool {
			if i >= len(exp) {
				inner = viol("iter-cold", "%s (cold storage) yields more than %d entries", d.name, len(exp))
				return false
			}
			if k != nil && !scalarEqual(k, exp[i].k) {
				inner = viol("iter-cold", "%s (cold storage) position %d: key %v, expected %s", d.name, i, k, exp[i].k)
				return false
			}
			if v != nil {
				if err := cmp.shallowEquals(v, exp[i].v, fmt.Sprintf("%s (cold storage) value %d", d.name, i)); err != nil {
					inner = viol("iter-cold", "%v", err)
					return false
				}
			}
			i++
			return true
		})
		if inner != nil {
			return inner
		}
		if err != nil || i != len(exp) {
			return viol("iter-cold", "%s on a storage that had not loaded the slabs before: %d of %d entries, error %v", d.name, i, len(exp), err)
		}
		w.stats.Extra["cold-single-flavour-iterations"]++
	}
	return nil
}
