package main

import (
	"bytes"
	"encoding/binary"
	"fmt"
	"math/rand"
	"os"
	"path/filepath"
	"runtime"
	"runtime/debug"
	"runtime/metrics"
	"strings"

	"github.com/onflow/atree"
)

// ---------------------------------------------------------------------------------------------
// C19: decoding untrusted bytes

// v0Twin re-encodes a version-1 register (without inlined slabs) in the version-0 layout described
// by the decoder documentation: double head for roots, mandatory 16-byte sibling link for non-root data
// slabs, 16-byte child ids with 4-byte sizes in index slabs.
func v0Twin(id atree.SlabID, data []byte) ([]byte, bool) {
	h, extraLen, _, err := registerSections(data)
	if err != nil || h.hasInlined || h.version != 1 {
		return nil, false
	}
	head := []byte{0x00, data[1]}
	rest := data[2:]
	extra := rest[:extraLen]
	rest = rest[extraLen:]
	var out []byte
	out = append(out, head...)
	if h.root {
		out = append(out, extra...)
		out = append(out, head...)
	}
	switch h.kind {
	case "array-data", "map-data", "map-collision":
		if !h.root {
			if h.hasNext {
				if len(rest) < 16 {
					return nil, false
				}
				out = append(out, rest[:16]...)
				rest = rest[16:]
			} else {
				out = append(out, make([]byte, 16)...)
			}
		}
		out = append(out, rest...)
		return out, true
	case "array-meta":
		if len(rest) < 10 {
			return nil, false
		}
		addr := rest[:8]
		n := int(binary.BigEndian.Uint16(rest[8:]))
		rest = rest[10:]
		if len(rest) != n*14 {
			return nil, false
		}
		out = append(out, byte(n>>8), byte(n))
		for i := 0; i < n; i++ {
			e := rest[i*14:]
			out = append(out, addr...)
			out = append(out, e[:8]...)           // index
			out = append(out, e[8:12]...)         // count
			out = append(out, 0, 0, e[12], e[13]) // size widened to 4 bytes
		}
		return out, true
	case "map-meta":
		if len(rest) < 10 {
			return nil, false
		}
		addr := rest[:8]
		n := int(binary.BigEndian.Uint16(rest[8:]))
		rest = rest[10:]
		if len(rest) != n*18 {
			return nil, false
		}
		out = append(out, byte(n>>8), byte(n))
		for i := 0; i < n; i++ {
			e := rest[i*18:]
			out = append(out, addr...)
			out = append(out, e[:8]...)   // index
			out = append(out, e[8:16]...) // first digest
			out = append(out, 0, 0, e[16], e[17])
		}
		return out, true
	case "storable":
		out = append([]byte{0x00, data[1]}, data[2:]...)
		return out, true
	}
	return nil, false
}

type corpusEntry struct {
	id   atree.SlabID
	data []byte
	kind string
}

// c19Corpus builds valid registers of every slab kind from seeded histories.
func c19Corpus(seed int64, obs map[string]int) ([]corpusEntry, error) {
	var out []corpusEntry
	for i, slab := range []uint32{256, 1024} {
		for j, kind := range []string{"array", "map", "map-collide", "array-deep", "map-deep"} {
			if slab != 256 && strings.HasSuffix(kind, "-deep") {
				continue
			}
			atree.VerifSetThreshold(slab)
			w := NewWorld(seed+int64(i*10+j), addrOf(byte(1+i*3+j), 0))
			w.traceOn = false
			w.prof.PContainer = 30
			w.prof.MaxDepth = 4
			w.prof.Composite = true
			w.prof.PSome = 20
			w.prof.Sizes = "mixed"
			var root *Node
			var err error
			steps := 260
			switch kind {
			case "array":
				root, err = w.NewRootArray(w.addr, w.newTI(false))
			case "map":
				root, err = w.NewRootMap(w.addr, w.newTI(false), nil)
			case "array-deep", "map-deep":
				// three levels: index slabs that are not roots (children of index slabs)
				w.prof.PContainer = 0
				w.prof.MaxDepth = 0
				w.prof.BigKeys = false
				w.prof.KeySpace = 20000
				if kind == "array-deep" {
					w.prof.Sizes = "medium"
					steps = 1500
					root, err = w.NewRootArray(w.addr, w.newTI(false))
				} else {
					w.prof.Sizes = "small"
					steps = 1800
					root, err = w.NewRootMap(w.addr, w.newTI(false), nil)
				}
			default:
				root, err = w.NewRootMap(w.addr, w.newTI(false), &DigProfile{Alpha: [4]uint64{6, 2, 2, 1}, Salt: uint64(seed)})
				w.prof.KeySpace = 150
			}
			if err != nil {
				return nil, err
			}
			w.AddRoot(root)
			for k := 0; k < steps; k++ {
				if err := w.Step(root, PhaseGrow, &HistCfg{DescendPct: 35, PopOnChild: true}); err != nil {
					return nil, err
				}
			}
			if err := w.Commit(false, 2); err != nil {
				return nil, err
			}
			for _, id := range sortedIDs(w.led.regs) {
				data := w.led.regs[id]
				h, _ := parseHead(data)
				k := h.kind
				if h.root {
					k += "+root"
				}
				if h.hasInlined {
					k += "+inlined"
				}
				out = append(out, corpusEntry{id, data, k})
				obs["corpus-v1:"+k]++
				if t, ok := v0Twin(id, data); ok {
					// a twin is only kept when the library decodes it to the same content as the v1 register
					s0, err0 := atree.DecodeSlab(id, t, cborDecModeDefault, decodeStorable, decodeTypeInfo)
					s1, err1 := atree.DecodeSlab(id, data, cborDecModeDefault, decodeStorable, decodeTypeInfo)
					if err0 == nil && err1 == nil && slabInfoEqual(atree.VerifSlabInfo(s1), atree.VerifSlabInfo(s0), "v0twin") == nil {
						out = append(out, corpusEntry{id, t, "v0:" + k})
						obs["corpus-v0:"+k]++
					} else {
						obs["v0-twins-rejected"]++
					}
				}
			}
		}
	}
	atree.VerifSetThreshold(1024)
	return out, nil
}

var atreeTags = []byte{246, 247, 248, 249, 250, 251, 252, 253, 254, 255, 161, 162, 163, 164, 165, 166, 167, 200, 240, 0}

func mutate(r *rand.Rand, in []byte, corpus []corpusEntry) ([]byte, string) {
	b := append([]byte(nil), in...)
	name := ""
	n := 1 + r.Intn(4)
	for k := 0; k < n; k++ {
		if len(b) == 0 {
			b = []byte{byte(r.Intn(256))}
		}
		pos := r.Intn(len(b))
		switch op := r.Intn(14); op {
		case 0:
			b[pos] ^= 1 << uint(r.Intn(8))
			name += "bitflip,"
		case 1:
			b[pos] = byte(r.Intn(256))
			name += "byteset,"
		case 2:
			b = b[:pos]
			name += "truncate,"
		case 3:
			b = append(b[:pos], b[pos+1:]...)
			name += "delete,"
		case 4:
			b = append(b[:pos], append([]byte{byte(r.Intn(256))}, b[pos:]...)...)
			name += "insert,"
		case 5:
			o := corpus[r.Intn(len(corpus))].data
			if len(o) > 0 {
				b = append(append([]byte(nil), b[:pos]...), o[r.Intn(len(o)):]...)
			}
			name += "splice,"
		case 6: // CBOR head rewrite at a head-looking position
			ai := b[pos] & 31
			major := b[pos] & 0xe0
			switch {
			case ai < 24:
				choices := []byte{(ai + 1) % 24, (ai + 23) % 24, 24, 25, 26, 27, 31}
				b[pos] = major | choices[r.Intn(len(choices))]
			case ai == 24 && pos+1 < len(b):
				b[pos+1] = []byte{b[pos+1] + 1, b[pos+1] - 1, 0xff, 0}[r.Intn(4)]
			case ai == 25 && pos+2 < len(b):
				v := []uint16{binary.BigEndian.Uint16(b[pos+1:]) + 1, binary.BigEndian.Uint16(b[pos+1:]) - 1, 0xffff, binary.BigEndian.Uint16(b[pos+1:]) << 8}[r.Intn(4)]
				binary.BigEndian.PutUint16(b[pos+1:], v)
			case ai == 26 && pos+4 < len(b):
				binary.BigEndian.PutUint32(b[pos+1:], []uint32{0xffffffff, 0x7fffffff, 1 << 24}[r.Intn(3)])
			case ai == 27 && pos+8 < len(b):
				binary.BigEndian.PutUint64(b[pos+1:], []uint64{1<<64 - 1, 1 << 62, 1 << 32}[r.Intn(3)])
			}
			name += "cborhead,"
		case 7: // element-count head of data slabs: 0x99 hi lo
			if i := bytes.IndexByte(b[pos:], 0x99); i >= 0 && pos+i+2 < len(b) {
				p := pos + i
				v := binary.BigEndian.Uint16(b[p+1:])
				binary.BigEndian.PutUint16(b[p+1:], []uint16{v + 1, v - 1, v * 256, 0xffff}[r.Intn(4)])
				if r.Intn(4) == 0 {
					b[p] = 0x9b // 8-byte count follows
				}
			}
			name += "count,"
		case 8: // tag number swap
			if i := bytes.IndexByte(b[pos:], 0xd8); i >= 0 && pos+i+1 < len(b) {
				b[pos+i+1] = atreeTags[r.Intn(len(atreeTags))]
			}
			name += "tag,"
		case 9: // header flags
			if len(b) >= 2 {
				switch r.Intn(7) {
				case 0:
					b[0] = (b[0] & 0x0f) | []byte{0x00, 0x10, 0x20, 0xf0}[r.Intn(4)]
				case 1:
					b[1] ^= 0x80
				case 2:
					b[0] ^= 0x02
				case 3:
					b[0] ^= 0x01
				case 4:
					b[1] ^= 0x20
				case 5:
					b[1] = (b[1] & 0xe0) | []byte{0x00, 0x01, 0x02, 0x08, 0x09, 0x0a, 0x0b, 0x1f, 0x10}[r.Intn(9)]
				case 6:
					b[1] ^= 0x40
				}
			}
			name += "flags,"
		case 10: // extra data index of inlined containers: d8 fa/fb/fc 83 18 idx
			for _, t := range []byte{250, 251, 252} {
				if i := bytes.Index(b[pos:], []byte{0xd8, t, 0x83, 0x18}); i >= 0 && pos+i+4 < len(b) {
					b[pos+i+4] = []byte{b[pos+i+4] + 1, b[pos+i+4] - 1, 0xff, 0x7f}[r.Intn(4)]
					break
				}
			}
			name += "extraindex,"
		case 11: // digest byte-string head 0x59 hi lo
			if i := bytes.IndexByte(b[pos:], 0x59); i >= 0 && pos+i+2 < len(b) {
				p := pos + i
				v := binary.BigEndian.Uint16(b[p+1:])
				binary.BigEndian.PutUint16(b[p+1:], []uint16{v + 1, v - 1, v + 8, v - 8, 0xffff}[r.Intn(5)])
			}
			name += "digestlen,"
		case 12: // child header count of index slabs (2 bytes after head [+ extra] + 8 address bytes): rewrite a 16-bit field
			if pos+1 < len(b) {
				binary.BigEndian.PutUint16(b[pos:], []uint16{0, 1, 0xffff, uint16(len(b))}[r.Intn(4)])
			}
			name += "u16,"
		case 13: // duplicate a chunk
			end := pos + r.Intn(len(b)-pos+1)
			b = append(b[:end], append(append([]byte(nil), b[pos:end]...), b[end:]...)...)
			name += "dup,"
		}
	}
	return b, name
}

// solveMod16 returns every c in [0, 65536) with S*c = t (mod 65536).
func solveMod16(S, t uint64) []uint16 {
	g := uint64(1)
	for S%(g*2) == 0 && g < 65536 {
		g *= 2
	}
	if t%g != 0 {
		return nil
	}
	m := 65536 / g // modulus of the reduced congruence (a power of two)
	a := (S / g) % m
	// inverse of the odd number a modulo the power of two m (Newton iteration doubles the number of correct bits)
	inv := a
	for i := 0; i < 5; i++ {
		inv = inv * (2 - a*inv) % m
		if int64(inv) < 0 {
			inv += m
		}
	}
	inv %= m
	c0 := (t / g) % m * inv % m
	var out []uint16
	for k := uint64(0); k < g; k++ {
		out = append(out, uint16(c0+k*m))
	}
	return out
}

// walkAccessors calls the size and child-reference accessors of an accepted slab, recursively.
func walkAccessors(s atree.Storable, depth int) int {
	if s == nil || depth > 64 {
		return 0
	}
	n := int(s.ByteSize() & 1)
	for _, c := range s.ChildStorables() {
		n += walkAccessors(c, depth+1)
	}
	return n
}

var allocSample = []metrics.Sample{{Name: "/gc/heap/allocs:bytes"}}

func allocBytes() uint64 {
	metrics.Read(allocSample)
	return allocSample[0].Value.Uint64()
}

type c19Out struct {
	accepted, rejected, reachedElements int
	remeasured                          int
	maxAllocRatio                       float64
}

// tryInput runs every entry point on one input. A panic is converted into a violation.
func tryInput(id atree.SlabID, in []byte, out *c19Out) (v *Violation) {
	defer func() {
		if os.Getenv("VERIF_NORECOVER") != "" {
			return
		}
		if p := recover(); p != nil {
			v = viol("decode-panic", "panic while decoding %d bytes: %v\n%s", len(in), p, shortStack())
		}
	}()
	_, _ = atree.IsRootOfAnObject(in)
	_, _ = atree.HasPointers(in)
	_, _ = atree.HasSizeLimit(in)
	_, _ = atree.NewSlabIDFromRawBytes(in) // raw identifier bytes of any length
	before := allocBytes()
	s, err := atree.DecodeSlab(id, in, cborDecModeDefault, decodeStorable, decodeTypeInfo)
	after := allocBytes()
	if d := after - before; d > 1<<20+512*uint64(len(in)) {
		// The cheap counter is flushed in bursts (per-span accounting), so re-measure this input exactly.
		var m0, m1 runtime.MemStats
		runtime.ReadMemStats(&m0)
		_, _ = atree.DecodeSlab(id, in, cborDecModeDefault, decodeStorable, decodeTypeInfo)
		runtime.ReadMemStats(&m1)
		exact := m1.TotalAlloc - m0.TotalAlloc
		if exact > 1<<20+512*uint64(len(in)) {
			return viol("decode-alloc", "decoding %d bytes allocated %d bytes", len(in), exact)
		}
		out.remeasured++
		if float64(exact) > out.maxAllocRatio {
			out.maxAllocRatio = float64(exact)
		}
	}
	if err != nil {
		out.rejected++
		return nil
	}
	if s == nil {
		return viol("decode-nil", "DecodeSlab returned neither a slab nor an error for %d bytes", len(in))
	}
	out.accepted++
	out.reachedElements += walkAccessors(s, 0)
	_ = s.SlabID()
	// Re-encoding or printing an accepted slab is NOT part of the property (only the size and child-reference
	// accessors are) and is deliberately not exercised: a first version of this oracle did and fired on the
	// unchanged tree inside EncodeSlab of a malformed-but-accepted compact map (see DESIGN.md change log).
	return nil
}

func runC19(c *CaseCtx) *CaseResult {
	res := &CaseResult{Stats: newStats(), Obs: map[string]int{}}
	r := rand.New(rand.NewSource(c.CaseSeed()))
	res.Config = map[string]any{"case": c.Case}
	corpus, err := c19Corpus(c.CaseSeed()%1000, res.Obs)
	if err != nil {
		if v, ok := err.(*Violation); ok {
			res.fail(v)
		} else {
			res.fail(viol("harness", "%v", err))
		}
		return res
	}
	var cur *os.File
	if c.Dir != "" {
		cur, _ = os.OpenFile(filepath.Join(c.Dir, fmt.Sprintf("current-%d.bin", os.Getpid())), os.O_CREATE|os.O_RDWR, 0o644)
		defer cur.Close()
	}
	inputs := 50000
	if c.Tier == "thorough" {
		inputs = 400000
	}
	var out c19Out
	record := func(in []byte) {
		if cur != nil {
			var l [4]byte
			binary.BigEndian.PutUint32(l[:], uint32(len(in)))
			_, _ = cur.WriteAt(l[:], 0)
			_, _ = cur.WriteAt(in, 4)
		}
	}
	canary := uint64(0xC0FFEE1234)
	check := func(e corpusEntry, in []byte, what string) bool {
		record(in)
		if v := tryInput(e.id, in, &out); v != nil {
			v.Msg = fmt.Sprintf("%s [input derived from a %s register by %s; hex=%x]", v.Msg, e.kind, what, truncateBytes(in, 600))
			res.fail(v)
			return false
		}
		if canary != 0xC0FFEE1234 {
			res.fail(viol("decode-canary", "canary overwritten after decoding"))
			return false
		}
		return true
	}
	// the unmodified corpus first (must all be accepted)
	for _, e := range corpus {
		a := out.accepted
		if !check(e, e.data, "identity") {
			return res
		}
		if out.accepted == a {
			res.fail(viol("harness", "a valid %s register was rejected by the decoder", e.kind))
			return res
		}
	}
	if c.Case == 0 {
		// all inputs of length 0..2 exhaustively, and all 65536 heads followed by a short tail, for the header queries and the dispatch
		e := corpus[0]
		if !check(e, nil, "empty") {
			return res
		}
		for a := 0; a < 256; a++ {
			if !check(e, []byte{byte(a)}, "1 byte") {
				return res
			}
			for b := 0; b < 256; b++ {
				if !check(e, []byte{byte(a), byte(b)}, "2 bytes") || !check(e, []byte{byte(a), byte(b), 0x81, 0x00}, "2 bytes + tail") {
					return res
				}
			}
		}
		res.Obs["exhaustive-short-inputs"] += 1 + 256 + 2*65536
	}
	// SYSTEMATIC single-field arithmetic: index slabs (and the head of every other register) consist of fixed-width
	// big-endian fields - child counts, sizes, element counts, indexes. Every 2-, 4- and 8-byte window of every index-slab
	// register of this case's corpus (first 56 bytes of the other registers; two registers of every kind per case) is replaced, alone, by values that a narrowed
	// or wrapped computation would confuse with the original: top bit flipped, +2^15, +2^8, doubled, complemented,
	// byte-swapped, +-1, 0, all ones. One field per input, nothing else disturbed.
	{
		n := 0
		perKind := map[string]int{}
		for _, e := range corpus {
			// two registers of every kind per case (64 / 160 cases, each with its own corpus)
			if perKind[e.kind]++; perKind[e.kind] > 2 {
				continue
			}
			limit := len(e.data)
			if !strings.Contains(e.kind, "meta") && limit > 56 {
				limit = 56
			}
			if limit > 700 {
				limit = 700
			}
			buf := make([]byte, len(e.data))
			for pos := 0; pos < limit; pos++ {
				for _, wd := range []int{2, 4, 8} {
					if pos+wd > len(e.data) {
						continue
					}
					var v uint64
					for i := 0; i < wd; i++ {
						v = v<<8 | uint64(e.data[pos+i])
					}
					top := uint64(1) << uint(8*wd-1)
					mask := ^uint64(0)
					if wd < 8 {
						mask = uint64(1)<<uint(8*wd) - 1
					}
					var sw uint64
					for i := 0; i < wd; i++ {
						sw = sw<<8 | (v >> uint(8*i) & 0xff)
					}
					for vi, nv := range []uint64{v ^ top, v + top/2, v + 256, v << 1, ^v, sw, v + 1, v - 1, 0, mask, v | top>>1} {
						nv &= mask
						if nv == v {
							continue
						}
						copy(buf, e.data)
						for i := wd - 1; i >= 0; i-- {
							buf[pos+i] = byte(nv)
							nv >>= 8
						}
						n++
						if !check(e, buf, fmt.Sprintf("single field: offset %d width %d variant %d", pos, wd, vi)) {
							return res
						}
					}
				}
			}
		}
		res.Obs["systematic-single-field-inputs"] += n
	}
	// LENGTH-CONSISTENT COUNT FORGING on index slabs (version 0 and 1): an index slab is a 16-bit child count followed by
	// fixed-size child headers, and its decoder checks "bytes present == header size x count". If that product is formed
	// in 16 bits, a truncated register passes the check with a forged count c such that size*c mod 65536 equals the number
	// of bytes actually present, and the header loop runs off the end. For every 2-byte field that holds the true child
	// count, every truncation point behind it (the last 64 positions, and every 4th before) and every plausible header
	// size, all counts solving the congruence are tried.
	{
		n := 0
		perKind := map[string]int{}
		for _, e := range corpus {
			if !strings.Contains(e.kind, "meta") {
				continue
			}
			if perKind[e.kind]++; perKind[e.kind] > 2 {
				continue
			}
			sl, err := atree.DecodeSlab(e.id, e.data, cborDecModeDefault, decodeStorable, decodeTypeInfo)
			if err != nil {
				continue
			}
			vi := atree.VerifSlabInfo(sl)
			if vi == nil || len(vi.Children) == 0 {
				continue
			}
			kids := uint16(len(vi.Children))
			for p := 0; p+2 <= len(e.data) && p < 96; p++ {
				if binary.BigEndian.Uint16(e.data[p:]) != kids {
					continue
				}
				q := p + 2
				for T := q; T <= len(e.data); T++ {
					if len(e.data)-T > 64 && (T-q)%4 != 0 {
						continue
					}
					present := uint64(T - q)
					for _, S := range []uint64{14, 18, 24, 28, 16, 20, 12, 32} {
						// all c in [0, 65536) with S*c = present (mod 65536)
						for _, c := range solveMod16(S, present&0xffff) {
							if (S*uint64(c))&0xffff != present&0xffff {
								res.fail(viol("harness", "solveMod16(%d, %d) returned %d", S, present&0xffff, c))
								return res
							}
							buf := append([]byte(nil), e.data[:T]...)
							binary.BigEndian.PutUint16(buf[p:], c)
							n++
							if !check(e, buf, fmt.Sprintf("forged child count %d at offset %d, register cut to %d bytes (header size %d)", c, p, T, S)) {
								return res
							}
						}
					}
				}
			}
		}
		res.Obs["length-consistent-count-forgeries"] += n
	}
	// parse the v1 data / storable registers once into CBOR item trees for the structure-preserving mutator
	type treeEntry struct {
		e corpusEntry
	}
	var treeable []corpusEntry
	for _, e := range corpus {
		if t, ok := parseRegisterTree(e.data); ok && string(t.encode()) == string(e.data) {
			treeable = append(treeable, e)
		}
	}
	res.Obs["corpus-registers-parsed-as-item-trees"] += len(treeable)
	for i := 0; i < inputs; i++ {
		if len(treeable) > 0 && i%5 < 2 {
			// 40%: well-formed CBOR with semantic inconsistencies (counts vs lists, duplicated / missing elements, grafts)
			e := treeable[r.Intn(len(treeable))]
			t, _ := parseRegisterTree(e.data)
			name := mutateTree(r, t)
			in := t.encode()
			if r.Intn(10) == 0 {
				var n2 string
				in, n2 = mutate(r, in, corpus)
				name += "+" + n2
			}
			res.Obs["tree-mutated-inputs"]++
			if !check(e, in, name) {
				return res
			}
			continue
		}
		e := corpus[r.Intn(len(corpus))]
		in, name := mutate(r, e.data, corpus)
		if !check(e, in, name) {
			return res
		}
	}
	res.Evals = inputs + len(corpus)
	res.Obs["inputs"] += inputs
	res.Obs["accepted-inputs"] += out.accepted
	res.Obs["rejected-inputs"] += out.rejected
	res.Obs["accessor-visits"] += out.reachedElements
	res.Obs["allocation-exactly-remeasured"] += out.remeasured
	if int(out.maxAllocRatio) > res.Obs["max-exactly-remeasured-allocation-bytes"] {
		res.Obs["max-exactly-remeasured-allocation-bytes"] = int(out.maxAllocRatio)
	}
	res.Hash = uint64(c.CaseSeed())
	res.NonTrivial = out.accepted > len(corpus) && out.rejected > 0
	res.Trace = []string{fmt.Sprintf("%d corpus registers (v1 and v0 twins), %d mutated inputs, %d accepted, %d rejected", len(corpus), inputs, out.accepted, out.rejected)}
	return res
}

// shortStack returns the frames of the current panic that belong to the library or the decoders.
func shortStack() string {
	lines := strings.Split(string(debug.Stack()), "\n")
	var out []string
	for i, l := range lines {
		if strings.Contains(l, "atree") && !strings.Contains(l, "harness") && strings.HasPrefix(l, "\t") {
			if i > 0 {
				out = append(out, strings.TrimSpace(lines[i-1]))
			}
			out = append(out, strings.TrimSpace(l))
		}
		if len(out) >= 12 {
			break
		}
	}
	return strings.Join(out, "\n")
}

func truncateBytes(b []byte, n int) []byte {
	if len(b) > n {
		return b[:n]
	}
	return b
}

func init() {
	register(&Prop{
		ID: "C19", Level: "exploration", Run: runC19,
		Cases: func(tier string) int {
			if tier == "thorough" {
				return 160
			}
			return 64
		},
		MinNonTrivial: 8,
		Rule: "each case builds a corpus of valid registers of every slab kind from seeded histories at slab 256/1024 (root/non-root array and map data slabs, index slabs, collision slabs, large-value slabs, inlined arrays/maps/compact maps nested 4 deep) plus VERSION-0 twins produced by a re-encoder written from the decoder documentation (kept only if the library decodes them to the same content), " +
			"then feeds 50000 (quick) / 400000 (thorough) inputs; 40% come from a STRUCTURE-PRESERVING mutator that parses the register into a CBOR item tree and keeps it well-formed (integer edits, duplicate / delete / swap / graft array elements, tag swaps, string lengths by whole digests, count-follows-list edits that make a count agree with a grown or shrunk list while a third list still disagrees), 60% from 1-4 stacked byte-level mutators: bit flip, byte set, truncate, delete/insert byte, splice with another register, chunk duplication, CBOR head rewrites (count/length +-1, x256, 2^16-1, 2^32-1, 2^64-1, indefinite), element-count and digest-length fields, atree tag-number swaps, head flag toggles (version nibble 0/1/2/15, root, has-next, has-inlined, any-size, slab-type bits), inlined extra-data index edits; case 0 additionally all inputs of length 0-2 and all 65536 heads + tail. " +
			"Oracle per input: no panic (recover) / no process death in IsRootOfAnObject, HasPointers, HasSizeLimit, DecodeSlab, and ByteSize/ChildStorables (recursive) of accepted slabs; allocation delta <= 1 MiB + 512 x len(input); the input is written to disk before each call; a hang is caught by the process watchdog. non-trivial = inputs beyond the corpus were accepted and others rejected; distinct by case seed",
		Assumptions: []string{"'all byte strings' is a mutational corpus; 'never loops' is a bounded-time observation (watchdog)", "the caller-supplied storable/type-info decoders are the test_utils / harness ones"},
		Mandatory:   []string{"accepted-inputs", "rejected-inputs", "accessor-visits", "exhaustive-short-inputs", "tree-mutated-inputs", "corpus-v0:array-data+root", "corpus-v0:array-meta+root", "corpus-v0:map-data", "corpus-v0:map-meta+root", "corpus-v1:map-collision", "corpus-v1:storable"},
	})
}
