package main

import (
	"fmt"
	"math/rand"

	"github.com/onflow/atree"
)

// ---------------------------------------------------------------------------------------------
// C05: well-formed trees, size bands; exhaustive arithmetic sweep over all slab sizes

const c05SweepCases = 16

func c05Sweep(c *CaseCtx) *CaseResult {
	res := &CaseResult{Config: map[string]any{"kind": "slab-size arithmetic sweep", "residue": c.Case, "modulus": c05SweepCases}, Stats: newStats()}
	defer atree.VerifSetThreshold(1024)
	n := 0
	for s := uint32(256); s <= 32768; s++ {
		if int(s)%c05SweepCases != c.Case {
			continue
		}
		n++
		atree.VerifSetThreshold(s)
		th := atree.VerifThresholds()
		fail := func(format string, args ...any) {
			res.fail(viol("arith", "slab size %d: %s", s, fmt.Sprintf(format, args...)))
		}
		// the library's split / merge thresholds must be at least as strict as the band the property states
		if th.Target != s || th.Min < s/2 || th.Max > uint32(float64(s)*1.5) || th.Min > th.Max/2 {
			fail("thresholds target=%d min=%d max=%d are not inside the band [%d, %d]", th.Target, th.Min, th.Max, s/2, uint32(float64(s)*1.5))
		}
		if 2*th.MaxInlineArrayElementSize+szArrayDataPrefix > s {
			fail("two maximal array elements (%d each) plus the non-root prefix do not fit the target size", th.MaxInlineArrayElementSize)
		}
		if 2*(th.MaxInlineMapElementSize+szDigest)+szMapDataPrefix+szHkeyElementsPrefix > s {
			fail("two maximal map elements (%d each) plus prefixes do not fit the target size", th.MaxInlineMapElementSize)
		}
		if 2*th.MaxInlineMapKeySize+szSingleElementPrefix > th.MaxInlineMapElementSize {
			fail("key limit %d: two of them exceed the element limit %d", th.MaxInlineMapKeySize, th.MaxInlineMapElementSize)
		}
		for k := uint32(0); k <= th.MaxInlineMapKeySize; k++ {
			v := atree.VerifMaxInlineMapValueSize(k)
			if v+k+szSingleElementPrefix > th.MaxInlineMapElementSize || v < k && k <= th.MaxInlineMapKeySize && v+k+1 != th.MaxInlineMapElementSize {
				fail("key size %d: value limit %d breaks the element limit %d", k, v, th.MaxInlineMapElementSize)
				break
			}
		}
		// a slab above the upper bound must hold at least two elements: one maximal element plus prefix stays below max
		if th.MaxInlineArrayElementSize+szArrayDataPrefix > th.Max || th.MaxInlineMapElementSize+szDigest+szMapDataPrefix+szHkeyElementsPrefix > th.Max {
			fail("a single maximal element can overflow a slab")
		}
		if len(res.Violations) > 3 {
			break
		}
	}
	res.Evals = n
	res.NonTrivial = true
	res.Hash = uint64(1000 + c.Case)
	res.Obs = map[string]int{"slab_sizes_swept": n}
	res.Trace = []string{fmt.Sprintf("arithmetic relations checked for %d slab sizes congruent %d mod %d in [256,32768]", n, c.Case, c05SweepCases)}
	return res
}

func runC05(c *CaseCtx) *CaseResult {
	if c.Case < c05SweepCases {
		return c05Sweep(c)
	}
	r := rand.New(rand.NewSource(c.CaseSeed() ^ 0xc05))
	kind := "array"
	if c.Case%2 == 1 {
		kind = "map"
	}
	cc := &ContCase{Kind: kind}
	cc.Slab = pickSlab(r, c.Case/2)
	cc.Prof = DefaultValProfile()
	cc.Prof.Sizes = "hostile"
	cc.Prof.PContainer = 6
	cc.Prof.MaxDepth = 2
	if c.Case%4 >= 2 {
		cc.Prof.PContainer = 0
		cc.Prof.MaxDepth = 0
		cc.Prof.PSome = 4
	}
	if (c.Case-c05SweepCases)%50 >= 48 {
		return c05Deep(c, kind, r)
	}
	if (c.Case-c05SweepCases)%25 == 21 {
		return runCollapseCase(c, r)
	}
	if (c.Case-c05SweepCases)%25 == 19 {
		return runDeflateCase(c, kind, r)
	}
	ops := 900
	if c.Tier == "thorough" {
		ops = 1500 + r.Intn(3000)
	}
	if cc.Slab >= 8192 {
		ops = ops * 2 / 3
	}
	cc.Ops = ops
	cc.Hist = HistCfg{DescendPct: 10, PopOnChild: true, InvalidPct: 2}
	cc.Mon = MonCfg{TreeEvery: 1, DeepEvery: 151, RefEvery: 61, ReachEvery: 50, ColdAtCommit: true, DirtyEvery: 6}
	cc.CommitEvery = 300
	cc.DrainAtEnd = c.Case%3 != 0
	if c.Case%7 >= 5 {
		cc.BatchStart = []int{2, 3, 4, 5, 6, 7, 9, 12, 40, 150}[r.Intn(10)]
	}
	cc.EvictEvery = c.Case / 2 % 2
	// set-heavy churn: growth and shrink of elements in place (overflow / underflow after update)
	cc.Phases = scalePhases(ops,
		[]Phase{PhaseGrow, {Name: "setchurn", Insert: 15, Set: 55, Remove: 20, Read: 8, Meta: 2}, PhaseShrink, PhaseGrow, {Name: "setchurn", Insert: 10, Set: 60, Remove: 22, Read: 6, Meta: 2}, PhaseDrain},
		[]int{30, 20, 12, 14, 14, 10})
	if kind == "map" && c.Case%6 == 1 {
		cc.Dig = &DigProfile{Alpha: [4]uint64{0, 3, 2, 0}, Salt: uint64(r.Int63())}
		cc.Dig.Alpha[0] = uint64(8 + r.Intn(40))
	}
	cc.Final = batchFinal
	res, w, _ := runContainerCase(c, cc)
	s := w.stats
	res.NonTrivial = s.NearMax > 0 && s.NearMin > 0 && s.Splits > 0 && s.Merges > 0 && s.MaxRootSlabs >= 3
	return res
}

// c05Deep: DEEP trees. At slab size 256 an index slab holds 5..16 children, so a few thousand small elements give index
// slabs whose children are index slabs whose children are index slabs: splits, merges and borrowing between INDEX slabs
// (not only leaves), root promotions / demotions over several levels, routing through >= 3 index levels.
// The structural walk runs every 16 operations and always after an operation that created or removed a slab.
func c05Deep(c *CaseCtx, kind string, r *rand.Rand) *CaseResult {
	res, _ := runDeepCase(c, kind, r)
	return res
}

// deepSlabSizes: small slab sizes whose index slabs overflow at an even and at an odd number of children (the parity of the
// child count at every index-slab split is a function of the slab size alone).
var deepSlabSizes = []uint32{256, 260, 300, 272, 282, 256, 288, 264}

func runDeepCase(c *CaseCtx, kind string, r *rand.Rand) (*CaseResult, *World) {
	cc := &ContCase{Kind: kind}
	cc.Slab = deepSlabSizes[r.Intn(len(deepSlabSizes))]
	if kind == "map" && cc.Slab > 272 {
		cc.Slab -= 24 // a map index slab at 256..272 holds <= 14 children: depth 4 from ~2 500 entries
	}
	cc.Prof = DefaultValProfile()
	cc.Prof.Sizes = "small"
	if kind == "array" {
		// an array index slab holds up to 27 children at these sizes (a map index slab 13): with small elements depth 4
		// would need > 20 000 elements, with half-limit elements a leaf holds 2-3 and a few thousand suffice
		cc.Prof.Sizes = "medium"
	}
	cc.Prof.PContainer = 0
	cc.Prof.MaxDepth = 0
	cc.Prof.PSome = 3
	cc.Prof.BigKeys = false
	cc.Prof.KeySpace = 40000
	ops := 10000
	if c.Tier == "thorough" {
		ops = 20000 + r.Intn(30000)
	}
	cc.Ops = ops
	cc.Hist = HistCfg{DescendPct: 0, InvalidPct: 1}
	cc.Mon = MonCfg{TreeEvery: 16, DeepEvery: ops / 2, RefEvery: ops / 2, ReachEvery: 800, ColdAtCommit: true, DirtyEvery: 400}
	cc.CommitEvery = ops / 4
	cc.EvictEvery = 2
	cc.DrainAtEnd = true
	changes := 0
	cc.PerOp = func(w *World, root *Node) error {
		// an operation that created or removed a slab: walk at once (every other one; in a deep tree that is most operations)
		if w.st.OpGenerates+w.st.OpRemoves > 0 && w.opCount%16 != 0 {
			if changes++; changes%2 == 0 {
				return w.CheckTree(false)
			}
		}
		return nil
	}
	cc.Phases = scalePhases(ops,
		[]Phase{{Name: "grow", Insert: 88, Set: 4, Remove: 3, Read: 5, Meta: 0}, PhaseChurn, {Name: "shrink", Insert: 4, Set: 4, Remove: 86, Read: 6, Meta: 0}, PhaseGrow, PhaseShrink},
		[]int{42, 10, 30, 10, 8})
	res, w, _ := runContainerCase(c, cc)
	s := w.stats
	res.Config["deep_tree_case"] = true
	res.NonTrivial = s.MaxDepth >= 4 && s.Splits > 0 && s.Merges > 0
	if s.MaxDepth >= 4 {
		s.Extra["deep-tree-cases-depth>=4"]++
	}
	return res, w
}

// runDeflateCase: A TREE THAT SHRINKS ONLY THROUGH OVERWRITES. N elements near half the inline limit are built into a tree of
// three or more levels; then every element is overwritten by a tiny one (sequentially, backwards, or in PRNG order) with no
// removal in between, so that data slabs and then index slabs underflow, merge and borrow - and the root collapses level by
// level - inside Set. The structural walk runs after every operation. A second pass re-inflates in place (splits inside Set).
func runDeflateCase(c *CaseCtx, kind string, r *rand.Rand) *CaseResult {
	slab := deepSlabSizes[r.Intn(len(deepSlabSizes))]
	res := &CaseResult{Config: map[string]any{"kind": kind, "deflate_case": true, "slab_size": slab}}
	atree.VerifSetThreshold(slab)
	defer atree.VerifSetThreshold(1024)
	w := NewWorld(c.CaseSeed(), addrOf(byte(1+c.Case%200), 0))
	w.prof.MaxDepth = 0
	w.prof.PContainer = 0
	w.mon = MonCfg{TreeEvery: 1, ReachEvery: 40, DeepEvery: 500, RefEvery: 500, DirtyEvery: 10, ColdAtCommit: true}
	res.Stats = w.stats
	finish := func(e error) *CaseResult {
		if e != nil {
			if v, ok := e.(*Violation); ok {
				res.fail(v)
			} else {
				res.fail(viol("harness", "%v", e))
			}
		}
		res.Trace = w.trace
		res.Hash = traceHash(res.Config, w.trace)
		res.NonTrivial = w.stats.Extra["deflate-cases-depth>=3"] > 0 && w.stats.Merges > 0
		return res
	}
	defer func() {
		if p := recover(); p != nil {
			res.Trace = w.trace
			panic(p)
		}
	}()
	var root *Node
	var err error
	if kind == "array" {
		root, err = w.NewRootArray(w.addr, w.newTI(false))
	} else {
		root, err = w.NewRootMap(w.addr, w.newTI(false), nil)
	}
	if err != nil {
		return finish(err)
	}
	w.AddRoot(root)
	th := atree.VerifThresholds()
	n := 230 + r.Intn(500)
	if c.Tier == "thorough" {
		n += r.Intn(1500)
	}
	if kind == "map" && r.Intn(2) == 0 {
		// few enough entries that the deflated map fits below ONE index slab (a map index slab holds about 13 children,
		// a deflated data slab about 8 entries), many enough that the inflated one needs three levels
		n = 70 + r.Intn(45)
	}
	res.Config["elements"] = n
	w.logOp("create root %s slab=%d elements=%d", root, slab, n)
	step := func(err error) error {
		if err != nil {
			return err
		}
		return w.AfterOp()
	}
	big := func() *Node {
		lim := int(th.MaxInlineArrayElementSize)
		if kind == "map" {
			lim = int(atree.VerifMaxInlineMapValueSize(9))
		}
		return &Node{Kind: KStr, S: w.strOfByteSize(lim*2/5 + r.Intn(lim/2))}
	}
	tiny := func(i int) *Node {
		if r.Intn(4) == 0 {
			return &Node{Kind: KU8, U: uint64(i % 200)}
		}
		return &Node{Kind: KU64, U: uint64(i)}
	}
	key := func(i int) *Node { return &Node{Kind: KU64, U: uint64(i)} }
	set := func(i int, v *Node) error {
		if kind == "array" {
			return step(w.OpArraySet(root, uint64(i), v))
		}
		return step(w.OpMapSet(root, key(i), v))
	}
	for i := 0; i < n; i++ {
		if kind == "array" {
			err = step(w.OpArrayAppend(root, big()))
		} else {
			err = step(w.OpMapSet(root, key(i), big()))
		}
		if err != nil {
			return finish(err)
		}
	}
	depthBuilt := w.stats.MaxDepth
	if r.Intn(2) == 0 {
		if err := w.CommitAndCheck(false, 2); err != nil {
			return finish(err)
		}
		if r.Intn(2) == 0 {
			w.DropCache()
		}
	}
	order := func() []int {
		o := make([]int, n)
		for i := range o {
			o[i] = i
		}
		switch r.Intn(3) {
		case 1:
			for i, j := 0, n-1; i < j; i, j = i+1, j-1 {
				o[i], o[j] = o[j], o[i]
			}
		case 2:
			o = r.Perm(n)
		}
		return o
	}
	// deflate: overwrites only
	for _, i := range order() {
		if err := set(i, tiny(i)); err != nil {
			return finish(err)
		}
	}
	w.stats.Extra["deflate-passes"]++
	if depthBuilt >= 3 {
		w.stats.Extra["deflate-cases-depth>=3"]++
		if d := w.quickDepth(root); d > 0 && d < depthBuilt {
			w.stats.Extra["deflate-cases-that-lost-a-level-by-overwrites-alone"]++
		}
	}
	if err := w.CommitAndCheck(false, 2); err != nil {
		return finish(err)
	}
	// re-inflate in place
	for _, i := range order() {
		if err := set(i, big()); err != nil {
			return finish(err)
		}
	}
	w.stats.Extra["inflate-passes"]++
	if err := w.CheckDeep(); err != nil {
		return finish(err)
	}
	return finish(w.CommitAndCheck(false, 2))
}

// runCollapseCase: REMOVAL THAT MAKES THE TREE GROW. Under the paired digest profile every collision group has exactly two
// members; with large values such a group lives in an external slab and its data slab only holds a 20-odd byte reference.
// Removing either member dissolves the group: the surviving (large) element moves back into the data slab, which can
// overflow and split - during a Remove. The case builds n pairs, then removes one member of every pair (PRNG order), then
// the rest, with the structural walk after every operation; the number of pairs is chosen so that the root index slab (and,
// for the larger n, the second-level index slabs) pass through "full" during the removal phase.
func runCollapseCase(c *CaseCtx, r *rand.Rand) *CaseResult {
	slab := []uint32{256, 256, 300, 512, 272}[r.Intn(5)]
	res := &CaseResult{Config: map[string]any{"kind": "map", "collapse_case": true, "slab_size": slab}}
	atree.VerifSetThreshold(slab)
	defer atree.VerifSetThreshold(1024)
	w := NewWorld(c.CaseSeed(), addrOf(byte(1+c.Case%200), 0))
	w.prof.MaxDepth = 0
	w.prof.PContainer = 0
	w.mon = MonCfg{TreeEvery: 1, ReachEvery: 25, DeepEvery: 400, RefEvery: 400, DirtyEvery: 10, ColdAtCommit: true}
	res.Stats = w.stats
	finish := func(e error) *CaseResult {
		if e != nil {
			if v, ok := e.(*Violation); ok {
				res.fail(v)
			} else {
				res.fail(viol("harness", "%v", e))
			}
		}
		res.Trace = w.trace
		res.Hash = traceHash(res.Config, w.trace)
		return res
	}
	defer func() {
		if p := recover(); p != nil {
			res.Trace = w.trace
			panic(p)
		}
	}()
	dig := &DigProfile{Paired: true, Salt: uint64(r.Int63())}
	root, err := w.NewRootMap(w.addr, w.newTI(false), dig)
	if err != nil {
		return finish(err)
	}
	w.AddRoot(root)
	pairs := []int{40, 90, 150, 220, 330, 480}[r.Intn(6)]
	if c.Tier == "thorough" {
		pairs += r.Intn(900)
	}
	res.Config["pairs"] = pairs
	w.logOp("create root %s slab=%d pairs=%d", root, slab, pairs)
	step := func(err error) error {
		if err != nil {
			return err
		}
		return w.AfterOp()
	}
	vlimit := int(atree.VerifMaxInlineMapValueSize(9))
	value := func() *Node {
		switch r.Intn(14) {
		case 0:
			return &Node{Kind: KU64, U: uint64(r.Intn(1000))} // small: the group stays inline
		case 1:
			return &Node{Kind: KStr, S: w.strOfByteSize(vlimit/3 + r.Intn(9))}
		case 2, 3, 4:
			return &Node{Kind: KStr, S: w.strOfByteSize(vlimit/2 - 4 + r.Intn(9))}
		case 5, 6, 7:
			return &Node{Kind: KStr, S: w.strOfByteSize(vlimit*3/4 + r.Intn(9))}
		default:
			return &Node{Kind: KStr, S: w.strOfByteSize(vlimit - r.Intn(4))}
		}
	}
	key := func(i int) *Node { return &Node{Kind: KU64, U: uint64(i)} }
	rootKids := func() (int, uint32) {
		if si := atree.VerifSlabInfo(atree.VerifMapRoot(root.Map)); si != nil && si.Kind == "map-meta" {
			return len(si.Children), si.Size
		}
		return 0, 0
	}
	if adaptive := r.Intn(3) != 0; adaptive {
		// build pair by pair until the ROOT index slab is within one child of overflowing (a two-level tree whose root has
		// room for exactly one more child): the removal phase then pushes it over during a Remove
		res.Config["build"] = "until the root index slab has room for exactly one more child"
		max := atree.VerifThresholds().Max
		pairs = 0
		for pairs < 1500 {
			for _, k := range []int{2 * pairs, 2*pairs + 1} {
				if err := step(w.OpMapSet(root, key(k), value())); err != nil {
					return finish(err)
				}
			}
			pairs++
			if kids, size := rootKids(); kids >= 3 {
				per := (size - 12) / uint32(kids)
				if size+per <= max && size+2*per > max {
					w.stats.Extra["collapse-cases-built-to-a-nearly-full-root-index-slab"]++
					break
				}
			}
		}
		res.Config["pairs"] = pairs
	} else {
		for _, i := range r.Perm(2 * pairs) {
			if err := step(w.OpMapSet(root, key(i), value())); err != nil {
				return finish(err)
			}
		}
	}
	if err := w.CommitAndCheck(false, 2); err != nil {
		return finish(err)
	}
	if r.Intn(2) == 0 {
		w.DropCache()
	}
	groupsBefore := w.stats.ExtGroupsSeen
	// one member of every pair
	for _, i := range r.Perm(pairs) {
		k := 2*i + r.Intn(2)
		before := w.stats.SlabsCreated
		kids0, _ := rootKids()
		if err := step(w.OpMapRemove(root, key(k))); err != nil {
			return finish(err)
		}
		if w.stats.SlabsCreated > before {
			w.stats.Extra["removals-that-created-slabs"]++
		}
		if kids1, size1 := rootKids(); kids0 > 0 && kids1 > kids0 {
			w.stats.Extra["removals-that-added-a-child-to-the-root-index-slab"]++
			if pct := int(size1 * 100 / atree.VerifThresholds().Max); pct > w.stats.Extra["max-root-index-fill-pct-after-growing-removal"] {
				w.stats.Extra["max-root-index-fill-pct-after-growing-removal"] = pct
			}
		} else if kids0 > 2 && kids1 == 2 {
			w.stats.Extra["root-index-slab-splits-during-removal"]++
		}
		if r.Intn(12) == 0 {
			// the survivor shrinks / grows in place
			if err := step(w.OpMapSet(root, key(k^1), value())); err != nil {
				return finish(err)
			}
		}
	}
	if err := w.CommitAndCheck(false, 2); err != nil {
		return finish(err)
	}
	// regrow half of the groups, then drain
	for _, i := range r.Perm(pairs)[:pairs/2] {
		for _, k := range []int{2 * i, 2*i + 1} {
			if _, ok := root.M[keyString(key(k))]; !ok {
				if err := step(w.OpMapSet(root, key(k), value())); err != nil {
					return finish(err)
				}
			}
		}
	}
	for _, k := range r.Perm(2 * pairs) {
		if _, ok := root.M[keyString(key(k))]; ok {
			if err := step(w.OpMapRemove(root, key(k))); err != nil {
				return finish(err)
			}
		}
	}
	if err := w.CheckTree(true); err != nil {
		return finish(err)
	}
	if err := w.CommitAndCheck(false, 2); err != nil {
		return finish(err)
	}
	_ = groupsBefore
	s := w.stats
	res.NonTrivial = s.Extra["removals-that-created-slabs"] > 0 && s.ExtGroupsSeen > 0 && s.MaxRootSlabs >= 3
	if res.NonTrivial {
		s.Extra["collapse-cases-with-growing-removals"]++
	}
	return finish(nil)
}

// ---------------------------------------------------------------------------------------------
// C06 / C07: byte-level monitors

func bytesCase(c *CaseCtx, salt int64) *ContCase {
	r := rand.New(rand.NewSource(c.CaseSeed() ^ salt))
	kind := "array"
	if c.Case%2 == 1 {
		kind = "map"
	}
	cc := &ContCase{Kind: kind}
	cc.Slab = []uint32{256, 1024, 512, 2048, 32768}[c.Case/2%5]
	if c.Case%7 == 6 {
		cc.Slab = uint32(256 + r.Intn(4000))
	}
	cc.Prof = DefaultValProfile()
	cc.Prof.Composite = true
	cc.Prof.CompositeFlip = true
	cc.Prof.ManyTypes = c.Case%4 >= 2
	cc.Prof.LongTypes = c.Case%3 == 1
	cc.Prof.PContainer = 35
	cc.Prof.PSome = 20
	cc.Prof.MaxDepth = 3
	cc.Prof.MaxChildElems = 5
	switch c.Case % 3 {
	case 0:
		cc.Prof.Sizes = "mixed"
	case 1:
		cc.Prof.Sizes = "small"
		cc.Prof.PContainer = 50
	case 2:
		cc.Prof.Sizes = "hostile"
		cc.Prof.PContainer = 15
	}
	ops := 260
	if c.Tier == "thorough" {
		ops = 600 + r.Intn(1200)
	}
	cc.Ops = ops
	cc.Hist = HistCfg{DescendPct: 45, PopOnChild: true, InvalidPct: 1}
	cc.Mon = MonCfg{TreeEvery: 5, DeepEvery: 211, RefEvery: 0, ReachEvery: 0, SizeEvery: 1, ColdAtCommit: true}
	cc.CommitEvery = 40
	if kind == "map" && c.Case%4 == 1 {
		cc.Dig = &DigProfile{Alpha: [4]uint64{uint64(6 + r.Intn(30)), 2, 2, 0}, Salt: uint64(r.Int63())}
		if c.Case%8 == 5 {
			cc.Dig.Alpha = [4]uint64{4, 1, 1, 1} // last-level lists
		}
		cc.Prof.KeySpace = 120
	}
	return cc
}

// runWideParentCase: MORE THAN 256 INLINED CHILDREN IN ONE SLAB. Every inlined map (and every inlined array of a type of its
// own) has an entry in its parent slab's extra-data section and refers to it by a one-byte index. At slab sizes far above
// the default one data slab can hold more than 256 such children; the library then refuses to encode the slab (a
// documented limit, tolerated and counted here). Everything it does encode must still round-trip: the case appends small
// inlined children one by one across the 256 boundary with the byte-level monitor after every operation, then removes
// children until fewer than 256 remain, after which the commit must go through and the cold rebuild must agree.
func runWideParentCase(c *CaseCtx, r *rand.Rand) *CaseResult {
	slab := []uint32{32768, 16384, 32768}[r.Intn(3)]
	variant := r.Intn(4)
	res := &CaseResult{Config: map[string]any{"kind": "wide-parent", "slab_size": slab, "variant": []string{"array of inlined maps", "map of inlined maps", "array of inlined arrays with types of their own", "array of inlined arrays and maps that share 26-70 types pairwise"}[variant]}}
	atree.VerifSetThreshold(slab)
	defer atree.VerifSetThreshold(1024)
	w := NewWorld(c.CaseSeed(), addrOf(byte(1+c.Case%200), 0))
	w.prof.MaxDepth = 0
	w.prof.PContainer = 0
	w.TolerateInlineLimit = true
	w.mon = MonCfg{SizeEvery: 1, TreeEvery: 16, ColdAtCommit: true}
	res.Stats = w.stats
	finish := func(e error) *CaseResult {
		if e != nil && e != errStop {
			if v, ok := e.(*Violation); ok {
				res.fail(v)
			} else {
				res.fail(viol("harness", "%v", e))
			}
		}
		res.Trace = w.trace
		res.Hash = traceHash(res.Config, w.trace)
		res.NonTrivial = w.stats.Extra["wide-parent-children-beyond-256"] > 0 || w.stats.Extra["wide-parent-shared-type-infos-beyond-24"] > 0
		return res
	}
	defer func() {
		if p := recover(); p != nil {
			res.Trace = w.trace
			panic(p)
		}
	}()
	var root *Node
	var err error
	if variant == 1 {
		root, err = w.NewRootMap(w.addr, TI{ID: 1}, nil)
	} else {
		root, err = w.NewRootArray(w.addr, TI{ID: 1})
	}
	if err != nil {
		return finish(err)
	}
	w.AddRoot(root)
	K := 258 + r.Intn(30)
	T := 26 + r.Intn(45)
	if variant == 3 {
		// every type is used by one inlined array AND one inlined map of the slab: the slab's list of shared type infos has
		// T >= 26 entries and the references into it need the two-byte CBOR form from index 24 on
		K = 2*T + r.Intn(10)
	}
	w.logOp("create root %s slab=%d, %d inlined children", root, slab, K)
	child := func(i int) (*Node, error) {
		saveTrace := w.traceOn
		w.traceOn = false
		defer func() { w.traceOn = saveTrace }()
		if variant == 3 {
			ti := TI{ID: uint64(3000 + (i/2)%T)}
			if i%2 == 0 {
				a, err := w.NewRootArray(w.addr, ti)
				if err != nil {
					return nil, err
				}
				return a, w.OpArrayAppend(a, &Node{Kind: KU8, U: uint64(i % 200)})
			}
			m, err := w.NewRootMap(w.addr, ti, nil)
			if err != nil {
				return nil, err
			}
			return m, w.OpMapSet(m, &Node{Kind: KU8, U: 1}, &Node{Kind: KU64, U: uint64(i)})
		}
		if variant == 2 {
			a, err := w.NewRootArray(w.addr, TI{ID: uint64(1000 + i)})
			if err != nil {
				return nil, err
			}
			return a, w.OpArrayAppend(a, &Node{Kind: KU8, U: uint64(i % 200)})
		}
		m, err := w.NewRootMap(w.addr, TI{ID: uint64(2 + i%3)}, nil)
		if err != nil {
			return nil, err
		}
		if err := w.OpMapSet(m, &Node{Kind: KU8, U: 1}, &Node{Kind: KU64, U: uint64(i)}); err != nil {
			return nil, err
		}
		if i%5 == 0 {
			// a second level: an inlined map inside the inlined map (two entries for this child)
			mm, err := w.NewRootMap(w.addr, TI{ID: 5}, nil)
			if err != nil {
				return nil, err
			}
			if err := w.OpMapSet(mm, &Node{Kind: KU8, U: 2}, &Node{Kind: KU8, U: 3}); err != nil {
				return nil, err
			}
			if err := w.OpMapSet(m, &Node{Kind: KU8, U: 2}, mm); err != nil {
				return nil, err
			}
		}
		return m, nil
	}
	add := func(i int) error {
		ch, err := child(i)
		if err != nil {
			return err
		}
		if root.Kind == KArr {
			err = w.OpArrayAppend(root, ch)
		} else {
			err = w.OpMapSet(root, &Node{Kind: KU64, U: uint64(i)}, ch)
		}
		if err != nil {
			return err
		}
		return w.AfterOp()
	}
	for i := 0; i < K; i++ {
		if err := add(i); err != nil {
			return finish(err)
		}
		if i >= 256 {
			w.stats.Extra["wide-parent-children-beyond-256"]++
		}
		if variant == 3 && i >= 2*24 {
			w.stats.Extra["wide-parent-shared-type-infos-beyond-24"]++
		}
	}
	// back below the limit: now the commit must go through
	remove := func() error {
		var err error
		if root.Kind == KArr {
			err = w.OpArrayRemove(root, uint64(w.rng.Intn(len(root.Elems))))
		} else {
			err = w.OpMapRemove(root, w.existingKey(root))
		}
		if err != nil {
			return err
		}
		return w.AfterOp()
	}
	count := func() int {
		if root.Kind == KArr {
			return len(root.Elems)
		}
		return len(root.M)
	}
	for count() > 190 {
		if err := remove(); err != nil {
			return finish(err)
		}
	}
	if err := w.CommitAndCheck(false, 2); err != nil {
		if err == errStop {
			return finish(viol("commit-err", "the commit is refused because of the inlined-entry limit although only %d children (fewer than 256 entries) remain in the slab", count()))
		}
		return finish(err)
	}
	w.stats.Extra["wide-parent-cases-committed-below-the-limit"]++
	// and across the boundary again on the decoded slab
	w.DropCache()
	if variant == 3 {
		// the decoded slab is used on: a few children go, a few more come (types beyond the 24th among them)
		for j := 0; j < 6; j++ {
			if err := remove(); err != nil {
				return finish(err)
			}
			if err := add(K + j); err != nil {
				return finish(err)
			}
		}
		return finish(w.CommitAndCheck(false, 2))
	}
	for i := K; count() < 262; i++ {
		if err := add(i); err != nil {
			return finish(err)
		}
	}
	return finish(w.CommitAndCheck(false, 2))
}

// batchFinal: last step of a byte-level case (the world is discarded afterwards)
func batchFinal(w *World, root *Node, res *CaseResult) {
	if err := w.batchBytes(4); err != nil {
		if v, ok := err.(*Violation); ok {
			res.fail(v)
		} else {
			res.fail(viol("harness", "%v", err))
		}
	}
}

func runC06(c *CaseCtx) *CaseResult {
	if c.Case%24 == 23 {
		return runWideParentCase(c, rand.New(rand.NewSource(c.CaseSeed()^0x256)))
	}
	cc := bytesCase(c, 0xc06)
	cc.Final = batchFinal
	res, w, _ := runContainerCase(c, cc)
	s := w.stats
	res.NonTrivial = s.Extra["bytes-slabs"] > 50 && s.Extra["bytes-nonroot"] > 0 && (s.Extra["bytes-compact-eq"] > 0 || s.Extra["bytes-groups"] > 0) && s.InlineToStand+s.StandToInline > 0
	return res
}

func runC07(c *CaseCtx) *CaseResult {
	if c.Case%24 == 23 {
		return runWideParentCase(c, rand.New(rand.NewSource(c.CaseSeed()^0x256)))
	}
	cc := bytesCase(c, 0xc07)
	// emphasis on extra-data layouts: many inlined children, same-typed composite maps with equal key sets
	cc.Prof.PContainer = 55
	cc.Prof.MaxChildElems = 4
	cc.Hist.DescendPct = 35
	cc.AfterCommit = func(w *World, root *Node) error {
		// in-repo serialization verifiers as secondary oracle
		for _, n := range w.allLive() {
			v, err := w.freshRoot(n, w.st)
			if err != nil {
				return err
			}
			cmp := func(a, b atree.Storable) bool { return storableEqual(a, b, "") == nil }
			switch x := v.(type) {
			case *atree.Array:
				if err := atree.VerifyArraySerialization(x, cborDecMode, cborEncMode, decodeStorable, decodeTypeInfo, cmp); err != nil {
					return viol("ref-serialization", "VerifyArraySerialization: %v", err)
				}
			case *atree.OrderedMap:
				if err := atree.VerifyMapSerialization(x, cborDecMode, cborEncMode, decodeStorable, decodeTypeInfo, cmp); err != nil {
					return viol("ref-serialization", "VerifyMapSerialization: %v", err)
				}
			}
			w.stats.Extra["inrepo-serialization-verifies"]++
		}
		return nil
	}
	cc.Final = batchFinal
	res, w, _ := runContainerCase(c, cc)
	s := w.stats
	res.NonTrivial = s.RegsChecked > 20 && (s.Extra["bytes-compact-eq"] > 1 || s.Extra["bytes-groups"] > 0 || s.Tree.InlinedSlabs > 1 || s.CompactSeen > 0)
	return res
}

// ---------------------------------------------------------------------------------------------
// C09: no leaked, dangling or doubly-owned slabs

func runC09(c *CaseCtx) *CaseResult {
	r := rand.New(rand.NewSource(c.CaseSeed() ^ 0xc09))
	kind := "array"
	if c.Case%2 == 1 {
		kind = "map"
	}
	cc := &ContCase{Kind: kind}
	cc.Slab = wideSlab(c.Case, []uint32{256, 512, 1024, 300}[c.Case/2%4])
	cc.Prof = DefaultValProfile()
	cc.Prof.Sizes = "mixed"
	cc.Prof.PContainer = 25
	cc.Prof.MaxDepth = 3
	cc.Prof.PSome = 15
	cc.Prof.MaxChildElems = 12
	cc.Prof.Composite = c.Case%3 == 0
	ops := 450
	if c.Tier == "thorough" {
		ops = 900 + r.Intn(1800)
	}
	cc.Ops = ops
	cc.Hist = HistCfg{DescendPct: 40, PopOnChild: true, InvalidPct: 3}
	cc.Mon = MonCfg{TreeEvery: 1, ReachEvery: 1, DeepEvery: 0, RefEvery: 0, ColdAtCommit: true, HealthAtCommit: true, DirtyEvery: 5}
	cc.CommitEvery = 60
	cc.EvictEvery = []int{0, 1, 2}[c.Case/2%3]
	cc.DrainAtEnd = c.Case%3 != 2
	cc.DrainedIsOneSlab = true
	cc.Prof.BlindDispose = true
	if c.Case%5 == 4 {
		cc.BatchStart = []int{2, 3, 4, 5, 6, 7, 9, 12, 40, 150}[r.Intn(10)]
	}
	if kind == "map" {
		cc.Dig = &DigProfile{Alpha: [4]uint64{uint64(3 + r.Intn(20)), uint64(1 + r.Intn(3)), 2, 0}, Salt: uint64(r.Int63())}
		cc.Prof.KeySpace = 150
	}
	// grow -> churn -> drain completely -> regrow -> bulk pop
	cc.Phases = scalePhases(ops,
		[]Phase{PhaseGrow, PhaseChurn, PhaseDrain, PhaseGrow, {Name: "pop", Insert: 10, Set: 10, Remove: 20, Read: 4, Meta: 2, Pop: 6}, PhaseDrain},
		[]int{28, 20, 16, 16, 8, 12})
	cc.Final = func(w *World, root *Node, res *CaseResult) {
		// containers that come out of the batch constructors must not leave anything behind either
		err := w.batchBytes(3)
		// Emptying the container must release every auxiliary slab: drain and count.
		if err == nil {
			if root.Kind == KArr {
				err = w.OpArrayPop(root)
			} else {
				err = w.OpMapPop(root)
			}
		}
		if err == nil {
			err = w.CheckTree(true)
		}
		if err == nil {
			wk := NewWalker(liveGetter(w.ps), w.ps, w.cb)
			if e := wk.WalkRootID(rootID(root), root, root.Dig); e != nil {
				err = viol("tree", "%v", e)
			} else if wk.Stats.Slabs != 1 {
				err = viol("drain-leak", "a drained container occupies %d slabs", wk.Stats.Slabs)
			}
		}
		if err == nil {
			err = w.CommitAndCheck(false, 2)
		}
		if err == nil {
			if n := len(w.led.regs); n != 1+len(w.detached) {
				err = viol("drain-leak", "after draining the only root, the ledger holds %d registers", n)
			}
		}
		if err != nil {
			if v, ok := err.(*Violation); ok {
				res.fail(v)
			} else {
				res.fail(viol("harness", "%v", err))
			}
		}
	}
	res, w, _ := runContainerCase(c, cc)
	s := w.stats
	res.NonTrivial = s.Merges > 0 && s.LargeValuesSeen > 0 && s.InlineToStand+s.StandToInline > 0 && (kind == "array" || s.ExtGroupsSeen+s.InlineGroupsSeen > 0)
	return res
}

// ---------------------------------------------------------------------------------------------
// C03: durability, completeness, quiet ledger, crash points

func runC03(c *CaseCtx) *CaseResult {
	r := rand.New(rand.NewSource(c.CaseSeed() ^ 0xc03))
	kind := "array"
	if c.Case%2 == 1 {
		kind = "map"
	}
	cc := &ContCase{Kind: kind}
	cc.Slab = wideSlab(c.Case, []uint32{256, 1024, 512}[c.Case/2%3])
	cc.Prof = DefaultValProfile()
	cc.Prof.PContainer = 18
	cc.Prof.MaxDepth = 3
	cc.Prof.Composite = c.Case%4 == 0
	cc.Prof.CompositeFlip = cc.Prof.Composite
	cc.Prof.BlindDispose = true
	ops := 320
	if c.Tier == "thorough" {
		ops = 500 + r.Intn(1000)
	}
	descend := 35
	switch c.Case % 8 {
	case 3, 6:
		// many small elements at the smallest slab size: trees of >= 3 levels, so that operations after a commit touch
		// leaves whose ancestors (index slabs, the root with the element count) are clean
		cc.Prof.Sizes = "small"
		cc.Prof.PContainer = 3
		cc.Prof.MaxDepth = 1
		cc.Prof.BigKeys = false
		cc.Prof.KeySpace = 3000
		cc.Slab = 256
		ops *= 3
		descend = 5
	case 5:
		// colliding digests: external collision groups (their slab changes while the data slab holding the reference does not)
		cc.Dig = &DigProfile{Alpha: [4]uint64{uint64(3 + r.Intn(6)), uint64(2 + r.Intn(3)), 2, 0}, Salt: uint64(r.Int63())}
		cc.Prof.KeySpace = 150
		cc.Prof.PContainer = 6
	}
	cc.Ops = ops
	cc.Hist = HistCfg{DescendPct: descend, PopOnChild: true, InvalidPct: 3}
	cc.Mon = MonCfg{TreeEvery: 7, DeepEvery: 0, ColdAtCommit: true, ReachEvery: 0, DirtyEvery: 1}
	cc.CommitEvery = []int{1, 2, 5, 17, 60, 100000}[c.Case/2%6]
	cc.Relaxed = c.Case%3 == 2
	cc.Workers = []int{1, 3, 16}[c.Case%3]
	cc.Temp = false

	// state captured at the last successful commit
	var lastRegs map[atree.SlabID][]byte
	var lastModels []*Node
	var lastIDs []atree.SlabID
	var lastDigest uint64
	var tempRoot *Node
	crashDiffers := 0
	capture := func(w *World) error {
		lastRegs = w.led.Snapshot()
		lastDigest = regsDigest(lastRegs)
		lastModels = lastModels[:0]
		lastIDs = lastIDs[:0]
		for _, n := range w.allLive() {
			if n.Addr == atree.AddressUndefined {
				continue
			}
			if err := w.handle(n); err != nil {
				return err
			}
			lastModels = append(lastModels, cloneModel(n))
			lastIDs = append(lastIDs, rootID(n))
		}
		return nil
	}
	crashPoint := func(w *World, deep bool) error {
		w.stats.CrashPoints++
		snap := w.led.Snapshot()
		if d := regsDigest(snap); d != lastDigest {
			return viol("crash-state", "registers changed without a commit: %v", diffRegs(lastRegs, snap))
		}
		if deep {
			if err := w.CheckCold(snap, lastModels, lastIDs, lastModels, true); err != nil {
				return err
			}
		}
		return nil
	}
	cc.AfterCommit = func(w *World, root *Node) error {
		if err := capture(w); err != nil {
			return err
		}
		// crash immediately after the commit
		return crashPoint(w, true)
	}
	first := true
	cc.PerOp = func(w *World, root *Node) error {
		if first {
			first = false
			// a second root at the temporary address: lives in memory only, is never written
			if c.Case%5 == 0 {
				var err error
				if c.Case%10 == 0 {
					tempRoot, err = w.NewRootMap(atree.AddressUndefined, w.newTI(false), nil)
				} else {
					tempRoot, err = w.NewRootArray(atree.AddressUndefined, w.newTI(false))
				}
				if err != nil {
					return err
				}
				w.AddRoot(tempRoot)
			}
			if err := w.CommitAndCheck(false, 1); err != nil {
				return err
			}
			return capture(w)
		}
		if tempRoot != nil && w.rng.Intn(4) == 0 {
			ph := PhaseChurn
			if err := w.Step(tempRoot, ph, &HistCfg{DescendPct: 10}); err != nil {
				return err
			}
		}
		// crash between two operations: the ledger must still be the last committed state;
		// the cold view differs from the warm view when there are uncommitted changes
		deep := w.opCount%9 == 0 || (cc.CommitEvery > 1 && (w.opCount+1)%cc.CommitEvery == 0)
		if w.ps.DeltasWithoutTempAddresses() > 0 {
			crashDiffers++
		}
		return crashPoint(w, deep)
	}
	cc.Final = func(w *World, root *Node, res *CaseResult) {
		if tempRoot != nil {
			// temp slabs stay pending forever and are never written
			for id := range w.led.regs {
				if id.Address() == atree.AddressUndefined {
					res.fail(viol("temp", "temporary-address slab %s was written to the ledger", id))
				}
			}
			wk := NewWalker(liveGetter(w.ps), w.ps, w.cb)
			if err := wk.WalkRootID(rootID(tempRoot), tempRoot, nil); err != nil {
				res.fail(viol("temp", "temporary-address container invalid after commits: %v", err))
			}
			w.stats.Extra["temp-root-cases"]++
		}
		if w.ps.DeltasWithoutTempAddresses() != 0 {
			res.fail(viol("commit-incomplete", "%d owned slabs still pending after a successful commit", w.ps.DeltasWithoutTempAddresses()))
		}
	}
	res, w, _ := runContainerCase(c, cc)
	s := w.stats
	s.Extra["crash-points-with-pending-changes"] += crashDiffers
	res.NonTrivial = s.Commits >= 2 && s.MaxRootSlabs >= 2 && s.SlabsRemoved > 0 && crashDiffers > 0
	return res
}

// ---------------------------------------------------------------------------------------------
// C10: mutation through handles of nested containers

func runC10(c *CaseCtx) *CaseResult {
	if base := registry["C10"].Cases(c.Tier) - ssParts; c.Case >= base {
		depth := 4
		if c.Tier == "thorough" {
			depth = 5
		}
		return runSmallScopeNested(c, depth, c.Case-base, ssParts)
	}
	r := rand.New(rand.NewSource(c.CaseSeed() ^ 0xc10))
	kind := "array"
	if c.Case%2 == 1 {
		kind = "map"
	}
	cc := &ContCase{Kind: kind}
	cc.Slab = wideSlab(c.Case, []uint32{256, 512, 1024, 400}[c.Case/2%4])
	cc.Prof = DefaultValProfile()
	cc.Prof.Sizes = []string{"small", "mixed", "hostile"}[c.Case%3]
	cc.Prof.PContainer = 40
	cc.Prof.MaxDepth = 3 + c.Case%3
	cc.Prof.PSome = 25
	cc.Prof.MaxChildElems = 4
	cc.Prof.Composite = c.Case%4 == 1
	cc.Prof.CompositeFlip = cc.Prof.Composite
	ops := 420
	if c.Tier == "thorough" {
		ops = 800 + r.Intn(1500)
	}
	cc.Ops = ops
	cc.Hist = HistCfg{DescendPct: 72, PopOnChild: true, InvalidPct: 2, IterHandles: true}
	if kind == "map" && c.Case%3 == 1 {
		// root-level hash collisions: nested containers living inside collision groups grow and shrink through their handles
		cc.Dig = &DigProfile{Alpha: [4]uint64{uint64(3 + r.Intn(8)), 2, 2, 0}, Salt: uint64(r.Int63())}
		if c.Case%6 == 4 {
			// collisions on ALL levels: children live (grow, shrink, flip) inside last-level collision lists
			cc.Dig.Alpha = [4]uint64{uint64(3 + r.Intn(6)), 1, 1, 1}
		}
		cc.Prof.KeySpace = 60
	}
	if c.Case%12 == 7 {
		// a hash-input provider covering only part of the key: NESTED maps (always on the default digester) then keep their
		// children in last-level collision lists, too
		cc.HipClasses = uint64(3 + r.Intn(8))
		cc.Prof.KeySpace = 80
	}
	cc.Mon = MonCfg{TreeEvery: 1, DeepEvery: 23, RefEvery: 37, ReachEvery: 11, ColdAtCommit: true, DirtyEvery: 5}
	cc.CommitEvery = []int{5, 20, 60}[c.Case%3]
	// child handles must survive cache eviction; after a full reopen they are re-acquired through the new root
	cc.EvictEvery = []int{0, 2, 1, 3}[c.Case/3%4]
	cc.ReopenEvery = []int{0, 0, 5, 0, 3}[c.Case/3%5]
	cc.Phases = scalePhases(ops,
		[]Phase{PhaseGrow, PhaseChurn, {Name: "childpop", Insert: 25, Set: 20, Remove: 25, Read: 15, Meta: 8, Pop: 7}, PhaseShrink, PhaseGrow, PhaseChurn},
		[]int{25, 25, 12, 13, 12, 13})
	res, w, _ := runContainerCase(c, cc)
	s := w.stats
	res.NonTrivial = s.MaxDepth >= 1 && s.InlineToStand > 0 && s.StandToInline > 0 && s.ColdReopens > 0 && s.Ops["refresh"]+s.Ops["refresh-by-iteration"] > 0
	return res
}

// ---------------------------------------------------------------------------------------------
// C11: detached containers and stale handles

func runC11(c *CaseCtx) *CaseResult {
	r := rand.New(rand.NewSource(c.CaseSeed() ^ 0xc11))
	kind := "array"
	if c.Case%2 == 1 {
		kind = "map"
	}
	cc := &ContCase{Kind: kind}
	cc.Slab = wideSlab(c.Case, []uint32{256, 512, 1024}[c.Case/2%3])
	cc.Prof = DefaultValProfile()
	cc.Prof.Sizes = []string{"small", "mixed"}[c.Case%2]
	cc.Prof.PContainer = 45
	cc.Prof.MaxDepth = 3
	cc.Prof.PSome = 20
	cc.Prof.MaxChildElems = 5
	cc.Prof.Composite = c.Case%3 != 0 // same-typed composite maps side by side: the compact form shares key / digest lists
	ops := 380
	if c.Tier == "thorough" {
		ops = 700 + r.Intn(1200)
	}
	cc.Ops = ops
	cc.Hist = HistCfg{DescendPct: 45, PopOnChild: true, InvalidPct: 1}
	cc.Mon = MonCfg{TreeEvery: 1, DeepEvery: 19, RefEvery: 41, ReachEvery: 7, SizeEvery: 3, ColdAtCommit: true, DirtyEvery: 4}
	cc.CommitEvery = []int{9, 30}[c.Case%2]
	cc.EvictEvery = []int{0, 2, 1}[c.Case/2%3]
	cc.Phases = scalePhases(ops, []Phase{PhaseGrow, PhaseChurn, PhaseChurn, PhaseShrink, PhaseChurn}, []int{25, 25, 20, 10, 20})
	play := newDetachedPlay(6, 35, 100)
	cc.PerOp = play.PerOp
	cc.Final = func(w *World, root *Node, res *CaseResult) {
		if err := staleHandleAfterReattach(w, root); err != nil {
			if v, ok := err.(*Violation); ok {
				res.fail(v)
			} else {
				res.fail(viol("harness", "%v", err))
			}
		}
	}
	res, w, _ := runContainerCase(c, cc)
	s := w.stats
	s.Extra["stale-handle-mutations"] += play.staleMut
	s.Extra["stale-mutations-after-parent-moved-on"] += play.staleWhileReplaced
	res.NonTrivial = play.staleWhileReplaced > 0 && s.Extra["reattached"] > 0 && s.Extra["detached-kept-stale-handle"] > 0
	return res
}

// staleHandleAfterReattach is the last step of a C11 case (the world is discarded afterwards): every detached container
// is re-attached to a brand-new parent through a SECOND handle (reloaded by slab id), and then mutated once through the
// FIRST, stale handle, which still carries the former parent's callback. Whatever that does to the new parent (two live
// handles on one container is outside what the API supports), the FORMER parent - the case's root - must be unaffected:
// content, structure, size bookkeeping, and persisted form.
func staleHandleAfterReattach(w *World, root *Node) error {
	if len(w.detached) == 0 {
		return nil
	}
	th := atree.VerifThresholds()
	detached := append([]*Node(nil), w.detached...)
	for _, d := range detached {
		// deliberately NOT through w.handle: the old handle is used as it is, whatever happened to the former parent's handle
		id := rootID(d)
		q, err := atree.NewArray(w.st, root.Addr, TI{ID: 5})
		if err != nil {
			return viol("harness", "%v", err)
		}
		var stale func() error
		if d.Kind == KArr {
			b, err := atree.NewArrayWithRootID(w.st, id)
			if err != nil {
				return viol("reopen", "reloading a detached array by id failed: %v", err)
			}
			if err := q.Append(b); err != nil {
				return viol("ret-err", "attaching a detached array to a new parent failed: %v", err)
			}
			a := d.Arr
			stale = func() error { return a.Append(scalarValue(w.genScalar(th.MaxInlineArrayElementSize / 8))) }
		} else {
			b, err := atree.NewMapWithRootID(w.st, id, w.builderFor(d))
			if err != nil {
				return viol("reopen", "reloading a detached map by id failed: %v", err)
			}
			if err := q.Append(b); err != nil {
				return viol("ret-err", "attaching a detached map to a new parent failed: %v", err)
			}
			m := d.Map
			stale = func() error {
				_, err := m.Set(w.cb.Compare, w.cb.HashInput, scalarValue(&Node{Kind: KU64, U: 1 << 40}), scalarValue(w.genScalar(th.MaxInlineMapElementSize/8)))
				return err
			}
		}
		w.logOp("re-attach %s to a new parent through a second handle, then mutate through the stale handle", d)
		// the outcome for the detached container / its new parent is unspecified (two handles): errors and even panics
		// there are not judged
		func() {
			defer func() { _ = recover() }()
			_ = stale()
		}()
		w.stats.Extra["stale-mutations-after-reattach-by-second-handle"]++
	}
	// the former parent must be exactly what the model says
	w.detached = nil
	wk := NewWalker(liveGetter(w.ps), w.ps, w.cb)
	if err := wk.WalkRootID(rootID(root), root, root.Dig); err != nil {
		return viol("tree", "former parent after stale-handle mutation of a re-attached child: %v", err)
	}
	c := &cmpCtx{storage: w.st, cb: w.cb}
	v, err := w.freshRoot(root, w.st)
	if err != nil {
		return err
	}
	if err := c.valueEqualsNode(v, root, root.String()); err != nil {
		return viol("deep", "former parent after stale-handle mutation of a re-attached child: %v", err)
	}
	var st sizeStats
	for sid := range wk.Visited {
		if s := w.ps.RetrieveIfLoaded(sid); s != nil {
			if err := CheckSlabBytes(s, &st); err != nil {
				return viol("bytes", "former parent after stale-handle mutation of a re-attached child: %v", err)
			}
		}
	}
	committed := false
	func() {
		// committing the (possibly inconsistent) new parents may fail or panic; that is not the former parent's problem
		defer func() { _ = recover() }()
		w.led.inCommit = true
		committed = w.ps.FastCommit(2) == nil
	}()
	w.led.inCommit = false
	if !committed {
		return nil
	}
	return w.CheckCold(w.led.Snapshot(), []*Node{root}, []atree.SlabID{rootID(root)}, []*Node{root}, false)
}

// detachedPlay keeps some detached containers alive (stale handle kept, or reloaded by slab id), mutates them through
// that handle while the former parent keeps changing, re-attaches them elsewhere or disposes of them.
type detachedPlay struct {
	maxKept, dropPct, playPct    int
	staleMut, staleWhileReplaced int
	detachedAt                   map[*Node]int
	setup                        bool
}

func newDetachedPlay(maxKept, dropPct, playPct int) *detachedPlay {
	return &detachedPlay{maxKept: maxKept, dropPct: dropPct, playPct: playPct, detachedAt: map[*Node]int{}}
}

func (p *detachedPlay) PerOp(w *World, root *Node) error {
	if !p.setup {
		p.setup = true
		w.OnDetach = func(n *Node, s atree.Storable) bool {
			if len(w.detached) >= p.maxKept || w.rng.Intn(100) < p.dropPct {
				return false
			}
			// keep the detached container alive; keep the stale handle when we hold one
			if (n.Kind == KArr && n.Arr == nil) || (n.Kind == KMap && n.Map == nil) || w.rng.Intn(4) == 0 {
				inner, _ := unwrapSomeStorable(s)
				sid, ok := inner.(atree.SlabIDStorable)
				if !ok {
					return false
				}
				if err := w.reopenRoot(n, atree.SlabID(sid), w.st); err != nil {
					return false
				}
				w.stats.Extra["detached-reloaded-by-id"]++
			} else {
				dropHandles(n, false)
				w.stats.Extra["detached-kept-stale-handle"]++
			}
			w.detached = append(w.detached, n)
			p.detachedAt[n] = w.opCount
			return true
		}
	}
	if len(w.detached) == 0 || w.rng.Intn(100) >= p.playPct {
		return nil
	}
	// mutate a detached container through its (stale) handle, re-attach it, or dispose of it
	d := w.detached[w.rng.Intn(len(w.detached))]
	switch roll := w.rng.Intn(100); {
	case roll < 6:
		// bulk pop through the kept handle (for a handle kept stale this may be the first mutation after the detachment)
		p.staleMut++
		w.stats.Extra["bulk-pops-of-detached-containers"]++
		if d.Kind == KArr {
			return w.OpArrayPop(d)
		}
		return w.OpMapPop(d)
	case roll < 70:
		p.staleMut++
		if w.opCount-p.detachedAt[d] > 3 {
			p.staleWhileReplaced++
		}
		n := 1 + w.rng.Intn(3)
		for i := 0; i < n; i++ {
			if err := w.Step(d, PhaseChurn, &HistCfg{DescendPct: 20, PopOnChild: true}); err != nil {
				return err
			}
		}
	case roll < 85:
		// re-attach somewhere in the live tree (same address)
		target := w.pickContainer(root, 40)
		w.removeDetached(d)
		w.stats.Extra["reattached"]++
		if target.Kind == KArr {
			return w.OpArrayInsert(target, w.pickIndex(target, true, nil), d)
		}
		return w.OpMapSet(target, w.genKey(target, w.prof.KeySpace), d)
	default:
		w.removeDetached(d)
		w.stats.Extra["detached-disposed"]++
		id := rootID(d)
		dropHandles(d, true)
		return w.dispose(atree.SlabIDStorable(id))
	}
	return nil
}

func (w *World) removeDetached(d *Node) {
	for i, x := range w.detached {
		if x == d {
			w.detached = append(w.detached[:i], w.detached[i+1:]...)
			return
		}
	}
}

func init() {
	cases := func(q, t int) func(string) int {
		return func(tier string) int {
			if tier == "thorough" {
				return t
			}
			return q
		}
	}
	register(&Prop{
		ID: "C05", Level: "exploration", Run: runC05, Cases: cases(c05SweepCases+16*24, c05SweepCases+16*100), MinNonTrivial: 16,
		Rule: "cases 0..15 = exhaustive sweep of every legal slab size 256..32768 (residue classes mod 16) checking the arithmetic behind 'a full slab holds >= 2 elements'; " +
			"remaining cases = seeded histories with the hostile size profile (strings at the inline limit -2..+2, at 1/2 and 1/4 of the limit, one-byte and larger-than-slab elements, in-place growth/shrink via Set) on arrays and maps, " +
			"independent structural walk after every operation (size band of every size-limited slab, element limits, header/child agreement, prefix sums, first digests, sorted-unique digests, sibling links, root index >= 2 children). " +
			"every 25th history case is a COLLAPSE case (paired digests: every collision group has two members; n pairs with large values are built, then one member of each pair is removed - the group dissolves, the survivor moves back into its data slab, which overflows and SPLITS DURING A REMOVE while the root / second-level index slabs pass through 'full'). " +
			"one pair in every 50 history cases is a DEEP-TREE case (slab size 256..300, thousands of small elements, tree depth >= 4: splits / merges / borrowing between index slabs over several levels, walk every 16 operations and after every slab-creating or -removing operation). " +
			"non-trivial = >=3 slabs, slabs observed within 8 bytes of both band edges, slab-creating and slab-removing operations (deep cases: depth >= 4); distinct by hash(config, operation list)",
		Assumptions: []string{"the size constants restated in harness/walker.go are cross-checked against real encodings by the C06 check", "exploration, not proof"},
		Mandatory:   []string{"slabs_near_upper_bound", "slabs_near_lower_bound", "ops_that_removed_slabs", "slab_sizes_swept", "deep-tree-cases-depth>=4", "removals-that-created-slabs", "root-index-slab-splits-during-removal", "deflate-cases-that-lost-a-level-by-overwrites-alone"},
	})
	register(&Prop{
		ID: "C06", Level: "exploration", Run: runC06, Cases: cases(16*48, 16*200), MinNonTrivial: 8,
		Rule: "cases = seeded histories rich in inlined arrays/maps (incl. composite-typed maps => compact form), wrappers, collision groups (adversarial digester), large values; after EVERY operation every dirtied slab is encoded and " +
			"len(register) - extra data item - inlined extra data item (+16 for an omitted sibling link) + exact compact saving must EQUAL the reported size; every inline element re-encoded alone; decoded size == live size; all registers re-checked at commits. " +
			"non-trivial = >50 slabs byte-checked incl. non-root ones, a compact map or collision group checked by equality, and an inline<->standalone flip; distinct by hash(config, operation list)",
		Assumptions: []string{"register sections are split with an independent CBOR stream decoder", "exploration, not proof"},
		Mandatory:   []string{"bytes-slabs", "bytes-compact-eq", "bytes-groups", "bytes-no-next", "registers_checked", "bytes-batch-built-containers", "wide-parent-shared-type-infos-beyond-24"},
	})
	register(&Prop{
		ID: "C07", Level: "exploration", Run: runC07, Cases: cases(16*48, 16*200), MinNonTrivial: 8,
		Rule: "cases = seeded histories emphasising extra-data layouts (many inlined children with equal / different type infos, same-typed composite maps with equal key sets, nesting depth <=4, collision groups, large values); " +
			"for every dirtied slab after every operation and every register at commits: Encode(Decode(R)) == R byte-for-byte, decoded content == live content (compact maps: key->value content), head flags (root, has-references, size-limited, has-next) == independently computed truth; in-repo serialization verifiers as secondary oracle. " +
			"non-trivial = >20 registers checked and a compact pair, a collision group or >1 inlined child present; distinct by hash(config, operation list)",
		Assumptions: []string{"only format version 1 registers are produced by the library under test", "exploration, not proof"},
		Mandatory:   []string{"bytes-slabs", "registers_checked", "inrepo-serialization-verifies", "bytes-batch-built-containers", "wide-parent-shared-type-infos-beyond-24"},
	})
	register(&Prop{
		ID: "C09", Level: "exploration", Run: runC09, Cases: cases(16*36, 16*200), MinNonTrivial: 8,
		Rule: "cases = seeded histories in which the harness disposes of every storable handed back (recursively); after EVERY operation the set of ids the storage resolves (universe = every id ever generated, recorded by the storage proxy) must equal the set reached " +
			"from the live roots by an independent walk, each non-root slab reached exactly once, owner address constant; same on registers after commits; finally the container is drained and must occupy exactly one slab / one register. " +
			"non-trivial = merges, large-value slabs, inline<->standalone flips (and collision groups for maps) all occurred; distinct by hash(config, operation list)",
		Assumptions: []string{"exploration, not proof"},
		Mandatory:   []string{"reach_checks", "external_groups_seen", "large_value_slabs_seen", "ops_that_removed_slabs"},
	})
	register(&Prop{
		ID: "C03", Level: "exploration", Run: runC03, Cases: cases(16*48, 16*200), MinNonTrivial: 8,
		Rule: "cases = seeded histories with commit placement from 'after every operation' to 'only at the end', both commit flavours, 1/3/16 workers, optionally a second root at the temporary address; the ledger proxy flags any write/delete outside a commit call and any write with the zero address; " +
			"a crash point is taken after EVERY operation (register map must be byte-identical to the one at the last successful commit) and a cold storage over a copy of the registers must rebuild every live root equal to the model snapshot of the last commit (every 9th operation, before and after each commit). " +
			"non-trivial = >=2 commits, multi-slab container, >=1 slab deleted, >=1 crash point with uncommitted changes pending; distinct by hash(config, operation list)",
		Assumptions: []string{"a crash is modelled as abandoning the in-memory storage; the ledger itself is atomic per call", "exploration, not proof"},
		Mandatory:   []string{"crash_points", "cold_reopens", "crash-points-with-pending-changes", "temp-root-cases"},
	})
	register(&Prop{
		ID: "C10", Level: "exploration", Run: runC10, Cases: cases(16*60+ssParts, 16*300+ssParts), MinNonTrivial: 8,
		Rule: "cases = seeded histories on trees of depth 3-5 mixing arrays and maps, wrapped and unwrapped children; 72% of operations go through handles of nested containers (acquired on insertion, by Get, by MUTABLE ITERATION over the parent, refreshed at PRNG times), every mutator incl. SetType and bulk pop; " +
			"after EVERY operation the whole tree is compared with the model from the ROOT (structure walk incl. the inline rule: inlined iff single slab within the parent's element limit minus wrapper size; value ids constant) and at commits rebuilt cold from registers. " +
			"non-trivial = children flipped inline->standalone and standalone->inline, handles were refreshed, cold reopen happened; distinct by hash(config, operation list). " +
			"The last 32 cases are a SMALL-SCOPE EXHAUSTIVE exploration: root array -> child array A -> grandchild array G plus a child map B (plain and wrapped variants), all handles obtained once at creation and never refreshed; every sequence of 4 (quick) / 5 (thorough) operations over a 12-operation alphabet (G append / remove / bulk pop, A insert-front / remove / settype, B set / remove, root insert-front / remove / append maximal element, commit with cold rebuild) at slab size 256, where two or three medium elements push G and then A across the inline limit; full tree, inline rule, API deep comparison, reachability and M-dirty after every operation",
		Assumptions: []string{"one canonical handle per container; refreshing a handle drops the handles of its descendants", "handles of nested containers are re-acquired through their parents after a cache eviction or a reopen (roots are kept / reopened by id)", "mutation through handles from read-only iterators is not generated", "exploration, not proof"},
		Mandatory:   []string{"inline_to_standalone_flips", "standalone_to_inline_flips", "cold_reopens", "small-scope-sequences-nested", "handles-acquired-by-mutable-iteration"},
	})
	register(&Prop{
		ID: "C11", Level: "exploration", Run: runC11, Cases: cases(16*24, 16*200), MinNonTrivial: 8,
		Rule: "cases = seeded histories in which children removed from / overwritten in their parent are kept alive (stale handle kept, or reloaded by slab id), mutated through that handle while the parent keeps changing, re-attached elsewhere or disposed of; " +
			"after EVERY operation the former parent and every detached container are compared with their (now independent) models: content, structure, byte-level sizes, reachability with detached containers as extra roots, cold rebuild at commits. " +
			"finally every still-detached container is re-attached to a new parent through a SECOND handle (reloaded by id) and mutated once through the first, stale handle: the former parent must be unaffected (structure, content, byte sizes, cold rebuild). " +
			"non-trivial = a stale-handle mutation issued >3 operations after detachment, a re-attachment, and a stale handle kept; distinct by hash(config, operation list)",
		Assumptions: []string{"overwriting an element with the very same child object is not generated", "two live handles on one container are only used in the final step of a case, and only the former parent is judged afterwards", "handles of nested (attached) containers are re-acquired after a cache eviction; handles of detached containers are kept", "exploration, not proof"},
		Mandatory:   []string{"stale-handle-mutations", "reattached", "detached-reloaded-by-id", "stale-mutations-after-reattach-by-second-handle"},
	})
}
