package main

import (
	"fmt"
	"sort"
	"strings"

	"github.com/onflow/atree"
	tu "github.com/onflow/atree/test_utils"
)

type Kind int

const (
	KU8 Kind = iota
	KU16
	KU32
	KU64
	KStr
	KSome
	KArr
	KMap
)

// Node is the reference model of one value (and, for containers, the place where the
// harness keeps its single canonical live handle).
type Node struct {
	Kind  Kind
	U     uint64
	S     string
	Inner *Node // KSome

	Elems []*Node           // KArr
	M     map[string]*Entry // KMap
	seq   uint64            // KMap: next insertion sequence number
	TI    TI

	// container bookkeeping
	Parent *Node // enclosing container (through Some wrappers); nil for roots and detached values
	Arr    *atree.Array
	Map    *atree.OrderedMap
	VID    atree.ValueID
	Addr   atree.Address
	Dig    *DigProfile // non-nil: root map with the adversarial digester
	nid    int

	// detached containers kept with their old handle: the former parent and the parent handle OBJECT the old handle's
	// update callback is bound to (see World.handle)
	lastDepth int // tree depth of this (root) container after the previous operation on it (event counters)

	fp    *Node
	fpArr *atree.Array
	fpMap *atree.OrderedMap

	sorted    []*Entry // cache of sortedEntries (valid while len(sorted) == len(M) and sortedGen == gen)
	gen       uint64   // bumped by every key insertion / removal
	sortedGen uint64
}

type Entry struct {
	Key *Node
	Val *Node
	Seq uint64
	h   uint64 // hash of the key string (lazily computed; selection in large maps)
}

func (n *Node) IsContainer() bool { return n.Kind == KArr || n.Kind == KMap }

// container returns the container node inside Some wrappers, or nil.
func (n *Node) container() *Node {
	for n != nil && n.Kind == KSome {
		n = n.Inner
	}
	if n != nil && n.IsContainer() {
		return n
	}
	return nil
}

func (n *Node) someDepth() int {
	d := 0
	for n != nil && n.Kind == KSome {
		n = n.Inner
		d++
	}
	return d
}

// keyString is the canonical identity of a scalar / string / wrapped key.
func keyString(n *Node) string {
	switch n.Kind {
	case KU8, KU16, KU32, KU64:
		return fmt.Sprintf("%d:%d", n.Kind, n.U)
	case KStr:
		return "s:" + n.S
	case KSome:
		return "o(" + keyString(n.Inner) + ")"
	}
	panic("verif: container used as key")
}

// value converts a scalar model node to an atree value (containers are not converted here).
func scalarValue(n *Node) atree.Value {
	switch n.Kind {
	case KU8:
		return tu.Uint8Value(n.U)
	case KU16:
		return tu.Uint16Value(n.U)
	case KU32:
		return tu.Uint32Value(n.U)
	case KU64:
		return tu.Uint64Value(n.U)
	case KStr:
		return tu.NewStringValue(n.S)
	case KSome:
		return tu.NewSomeValue(scalarValue(n.Inner))
	}
	panic("verif: scalarValue on container")
}

func (n *Node) String() string {
	var sb strings.Builder
	n.describe(&sb, 0)
	return sb.String()
}

func (n *Node) describe(sb *strings.Builder, depth int) {
	switch n.Kind {
	case KU8, KU16, KU32, KU64:
		fmt.Fprintf(sb, "u%d(%d)", 8<<uint(n.Kind), n.U)
	case KStr:
		if len(n.S) > 12 {
			fmt.Fprintf(sb, "str[%d]", len(n.S))
		} else {
			fmt.Fprintf(sb, "%q", n.S)
		}
	case KSome:
		sb.WriteString("some(")
		n.Inner.describe(sb, depth)
		sb.WriteString(")")
	case KArr:
		fmt.Fprintf(sb, "arr#%d<%s>[%d]", n.nid, n.TI, len(n.Elems))
	case KMap:
		fmt.Fprintf(sb, "map#%d<%s>{%d}", n.nid, n.TI, len(n.M))
	}
}

// sortedEntries returns the map's entries sorted by key string (deterministic iteration for the harness).
func (n *Node) sortedEntries() []*Entry {
	if n.sorted != nil && n.sortedGen == n.gen && len(n.sorted) == len(n.M) {
		return n.sorted
	}
	defer func() { n.sortedGen = n.gen }()
	type dec struct {
		ks string
		e  *Entry
	}
	tmp := make([]dec, 0, len(n.M))
	for ks, e := range n.M {
		tmp = append(tmp, dec{ks, e})
	}
	sort.Slice(tmp, func(i, j int) bool { return tmp[i].ks < tmp[j].ks })
	out := make([]*Entry, len(tmp))
	for i := range tmp {
		out[i] = tmp[i].e
	}
	n.sorted = out
	return out
}

// ---------------------------------------------------------------------------------------------
// conversion of library scalars to comparable form

// scalarEqual compares a library value (non-container, possibly wrapped) with a model node.
func scalarEqual(v atree.Value, n *Node) bool {
	switch n.Kind {
	case KU8:
		x, ok := v.(tu.Uint8Value)
		return ok && uint64(x) == n.U
	case KU16:
		x, ok := v.(tu.Uint16Value)
		return ok && uint64(x) == n.U
	case KU32:
		x, ok := v.(tu.Uint32Value)
		return ok && uint64(x) == n.U
	case KU64:
		x, ok := v.(tu.Uint64Value)
		return ok && uint64(x) == n.U
	case KStr:
		x, ok := v.(tu.StringValue)
		return ok && x.String() == n.S
	case KSome:
		x, ok := v.(tu.SomeValue)
		return ok && scalarEqual(x.Value, n.Inner)
	}
	return false
}

// keyNodeFromValue rebuilds a key model node from a library key value (for iteration results).
func keyNodeFromValue(v atree.Value) (*Node, bool) {
	switch x := v.(type) {
	case tu.Uint8Value:
		return &Node{Kind: KU8, U: uint64(x)}, true
	case tu.Uint16Value:
		return &Node{Kind: KU16, U: uint64(x)}, true
	case tu.Uint32Value:
		return &Node{Kind: KU32, U: uint64(x)}, true
	case tu.Uint64Value:
		return &Node{Kind: KU64, U: uint64(x)}, true
	case tu.StringValue:
		return &Node{Kind: KStr, S: x.String()}, true
	case tu.SomeValue:
		in, ok := keyNodeFromValue(x.Value)
		if !ok {
			return nil, false
		}
		return &Node{Kind: KSome, Inner: in}, true
	}
	return nil, false
}

// ---------------------------------------------------------------------------------------------
// API-based deep comparison (M-deep, access + iteration) on *fresh* objects.

type cmpCtx struct {
	storage atree.SlabStorage
	cb      *Callbacks
	visited int
	visits  int // containers compared so far: alternates the order of lookups and traversal
}

// valueEqualsNode compares a library value obtained through the API with the model.
// Containers are compared by Count, by positional/keyed access and by read-only iteration.
func (c *cmpCtx) valueEqualsNode(v atree.Value, n *Node, path string) error {
	c.visited++
	switch n.Kind {
	case KSome:
		sv, ok := v.(tu.SomeValue)
		if !ok {
			return fmt.Errorf("%s: expected wrapper, got %T", path, v)
		}
		return c.valueEqualsNode(sv.Value, n.Inner, path+".some")
	case KArr:
		a, ok := v.(*atree.Array)
		if !ok {
			return fmt.Errorf("%s: expected array, got %T", path, v)
		}
		return c.arrayEqualsNode(a, n, path)
	case KMap:
		m, ok := v.(*atree.OrderedMap)
		if !ok {
			return fmt.Errorf("%s: expected map, got %T", path, v)
		}
		return c.mapEqualsNode(m, n, path)
	default:
		if !scalarEqual(v, n) {
			return fmt.Errorf("%s: value %v (%T) != model %s", path, v, v, n)
		}
		return nil
	}
}

func (c *cmpCtx) arrayEqualsNode(a *atree.Array, n *Node, path string) error {
	if a.Count() != uint64(len(n.Elems)) {
		return fmt.Errorf("%s: array count %d != model %d", path, a.Count(), len(n.Elems))
	}
	if t, ok := tiOf(a.Type()); !ok || t != n.TI {
		return fmt.Errorf("%s: array type %v != model %v", path, a.Type(), n.TI)
	}
	if a.ValueID() != n.VID {
		return fmt.Errorf("%s: array value id %s != recorded %s", path, a.ValueID(), n.VID)
	}
	// positional access
	positional := func() error {
		for i, e := range n.Elems {
			v, err := a.Get(uint64(i))
			if err != nil {
				return fmt.Errorf("%s[%d]: Get failed: %v", path, i, err)
			}
			if err := c.valueEqualsNode(v, e, fmt.Sprintf("%s[%d]", path, i)); err != nil {
				return err
			}
		}
		return nil
	}
	// traversal
	traversal := func() error {
		i := 0
		err := a.IterateReadOnly(func(v atree.Value) (bool, error) {
			if i >= len(n.Elems) {
				return false, fmt.Errorf("%s: iteration yields more than %d elements", path, len(n.Elems))
			}
			if err := c.shallowEquals(v, n.Elems[i], fmt.Sprintf("%s<iter %d>", path, i)); err != nil {
				return false, err
			}
			i++
			return true, nil
		})
		if err != nil {
			return err
		}
		if i != len(n.Elems) {
			return fmt.Errorf("%s: iteration yields %d elements, model has %d", path, i, len(n.Elems))
		}
		return nil
	}
	// the order alternates from one container to the next: whichever runs first runs on whatever the storage has
	// loaded so far (nothing, on a cold storage), the other on slabs the first has brought in
	c.visits++
	if c.visits%2 == 0 {
		if err := traversal(); err != nil {
			return err
		}
		return positional()
	}
	if err := positional(); err != nil {
		return err
	}
	return traversal()
}

// shallowEquals compares scalars fully and containers by kind, count and value id.
func (c *cmpCtx) shallowEquals(v atree.Value, n *Node, path string) error {
	switch n.Kind {
	case KSome:
		sv, ok := v.(tu.SomeValue)
		if !ok {
			return fmt.Errorf("%s: expected wrapper, got %T", path, v)
		}
		return c.shallowEquals(sv.Value, n.Inner, path)
	case KArr:
		a, ok := v.(*atree.Array)
		if !ok {
			return fmt.Errorf("%s: expected array, got %T", path, v)
		}
		if a.Count() != uint64(len(n.Elems)) || a.ValueID() != n.VID {
			return fmt.Errorf("%s: array (count %d, id %s) != model (count %d, id %s)", path, a.Count(), a.ValueID(), len(n.Elems), n.VID)
		}
		return nil
	case KMap:
		m, ok := v.(*atree.OrderedMap)
		if !ok {
			return fmt.Errorf("%s: expected map, got %T", path, v)
		}
		if m.Count() != uint64(len(n.M)) || m.ValueID() != n.VID {
			return fmt.Errorf("%s: map (count %d, id %s) != model (count %d, id %s)", path, m.Count(), m.ValueID(), len(n.M), n.VID)
		}
		return nil
	default:
		if !scalarEqual(v, n) {
			return fmt.Errorf("%s: value %v (%T) != model %s", path, v, v, n)
		}
		return nil
	}
}

func (c *cmpCtx) mapEqualsNode(m *atree.OrderedMap, n *Node, path string) error {
	if m.Count() != uint64(len(n.M)) {
		return fmt.Errorf("%s: map count %d != model %d", path, m.Count(), len(n.M))
	}
	if t, ok := tiOf(m.Type()); !ok || t != n.TI {
		return fmt.Errorf("%s: map type %v != model %v", path, m.Type(), n.TI)
	}
	if m.ValueID() != n.VID {
		return fmt.Errorf("%s: map value id %s != recorded %s", path, m.ValueID(), n.VID)
	}
	c.visits++
	order := c.visits % 4 // 0: traversal first, Has before Get; 1: Get, Has, traversal; 2: traversal first, Get before Has; 3: Has, Get, traversal
	lookups := func() error {
		for _, e := range n.sortedEntries() {
			kv := scalarValue(e.Key)
			if order == 0 || order == 3 {
				ok, err := m.Has(c.cb.Compare, c.cb.HashInput, kv)
				if err != nil || !ok {
					return fmt.Errorf("%s{%s}: Has (before any Get) = %v, %v", path, e.Key, ok, err)
				}
			}
			v, err := m.Get(c.cb.Compare, c.cb.HashInput, kv)
			if err != nil {
				return fmt.Errorf("%s{%s}: Get failed: %v", path, e.Key, err)
			}
			if err := c.valueEqualsNode(v, e.Val, fmt.Sprintf("%s{%s}", path, e.Key)); err != nil {
				return err
			}
			ok, err := m.Has(c.cb.Compare, c.cb.HashInput, kv)
			if err != nil || !ok {
				return fmt.Errorf("%s{%s}: Has = %v, %v", path, e.Key, ok, err)
			}
		}
		return nil
	}
	if order == 1 || order == 3 {
		if err := lookups(); err != nil {
			return err
		}
	}
	seen := make(map[string]bool, len(n.M))
	err := m.IterateReadOnly(func(k, v atree.Value) (bool, error) {
		kn, ok := keyNodeFromValue(k)
		if !ok {
			return false, fmt.Errorf("%s: iteration yields unknown key type %T", path, k)
		}
		ks := keyString(kn)
		e, ok := n.M[ks]
		if !ok {
			return false, fmt.Errorf("%s: iteration yields key %s not in model", path, kn)
		}
		if seen[ks] {
			return false, fmt.Errorf("%s: iteration yields key %s twice", path, kn)
		}
		seen[ks] = true
		if err := c.shallowEquals(v, e.Val, fmt.Sprintf("%s<iter %s>", path, kn)); err != nil {
			return false, err
		}
		return true, nil
	})
	if err != nil {
		return err
	}
	if len(seen) != len(n.M) {
		return fmt.Errorf("%s: iteration yields %d keys, model has %d", path, len(seen), len(n.M))
	}
	if order == 0 || order == 2 {
		return lookups()
	}
	return nil
}
