package main

import (
	"bytes"
	"errors"
	"fmt"
	"math/rand"
	"sort"
	"sync/atomic"
	"time"

	"github.com/onflow/atree"
	tu "github.com/onflow/atree/test_utils"
)

// ---------------------------------------------------------------------------------------------
// C14: failed commits lose nothing; retry converges

type c14Inject struct {
	commitIdx  int
	k          int   // 1-based position of the failing ledger write/delete in the first attempt
	ks         []int // positions failing in the successive retries (empty = first retry succeeds)
	apply      bool  // the failing call takes effect although it reports failure
	retryLater bool  // do not retry immediately: continue the history and commit later
}

type c14Plan struct {
	seed     int64
	kind     string
	slab     uint32
	ops      int
	commitAt map[int]bool
	relaxed  bool
	workers  int
	owners   int
}

type c14Out struct {
	snaps   []map[atree.SlabID][]byte // registers after each successful commit point
	writes  []int                     // number of ledger writes of each commit (fault-free run)
	deletes []int
	final   map[atree.SlabID][]byte
	w       *World
	stats   map[string]int
}

// Bounded progress for "a commit whose ledger write failed returns": a faulted commit of these small write sets takes
// well under a millisecond. It is waited for 60 s; if that expires the SAME scenario is repeated from scratch with 120 s,
// and only a second expiry is a violation (commit-hang); a single one is a counter. After a reported hang the process
// stops enumerating (every further probe would cost minutes and the verdict is already there).
var (
	c14Limit         = 60 * time.Second
	errCommitTimeout = errors.New("verif: faulted commit did not return within the limit")
	c14HangSeen      int64
)

// c14Bounded runs one injected scenario with the two-stage limit.
func c14Bounded(plan *c14Plan, inj *c14Inject, twin *c14Out, obs map[string]int) (*c14Out, error) {
	c14Limit = 60 * time.Second
	out, err := c14Run(plan, inj, twin)
	if err != errCommitTimeout {
		return out, err
	}
	obs["commit-first-stage-timeouts"]++
	c14Limit = 120 * time.Second
	out, err = c14Run(plan, inj, twin)
	c14Limit = 60 * time.Second
	if err == errCommitTimeout {
		atomic.StoreInt64(&c14HangSeen, 1)
		return out, viol("commit-hang", "the commit did not return after ledger write %d failed (twice: 60 s, then 120 s on a fresh storage; normal duration is below a millisecond)", inj.k)
	}
	return out, err
}

// c14Run executes the planned history. With inj == nil it is the fault-free twin.
func c14Run(plan *c14Plan, inj *c14Inject, twin *c14Out) (*c14Out, error) {
	atree.VerifSetThreshold(plan.slab)
	defer atree.VerifSetThreshold(1024)
	w := NewWorld(plan.seed, addrOf(7, 0))
	w.prof = DefaultValProfile()
	w.prof.PContainer = 15
	w.prof.MaxDepth = 2
	w.prof.Sizes = "mixed"
	w.traceOn = inj == nil
	out := &c14Out{w: w, stats: map[string]int{}}
	var roots []*Node
	for i := 0; i < plan.owners; i++ {
		addr := addrOf(byte(7+i), byte(i*0x40))
		var n *Node
		var err error
		if (plan.kind == "array") == (i%2 == 0) {
			n, err = w.NewRootArray(addr, w.newTI(false))
		} else {
			n, err = w.NewRootMap(addr, w.newTI(false), nil)
		}
		if err != nil {
			return out, err
		}
		w.AddRoot(n)
		roots = append(roots, n)
	}
	hist := &HistCfg{DescendPct: 25, PopOnChild: true}
	commitNo := 0
	doCommit := func() error {
		defer func() { commitNo++ }()
		if inj == nil || inj.commitIdx != commitNo {
			w.led.logOn = true
			w.led.log = w.led.log[:0]
			if err := w.Commit(plan.relaxed, plan.workers); err != nil {
				return err
			}
			nw, nd := 0, 0
			for _, c := range w.led.log {
				switch c.Kind {
				case 'S':
					nw++
				case 'D':
					nd++
				}
			}
			w.led.logOn = false
			out.writes = append(out.writes, nw)
			out.deletes = append(out.deletes, nd)
			out.snaps = append(out.snaps, w.led.Snapshot())
			return nil
		}
		// ---- the faulty commit
		want := twin.snaps[commitNo]
		pendingBefore, _ := atree.VerifStorageLayers(w.ps)
		attempt := func(k int) error {
			w.led.ResetFaultCounters()
			fired := false
			w.led.FailWrite = func(n int, kind byte, id atree.SlabID) (bool, bool) {
				if n == k {
					fired = true
					return true, inj.apply
				}
				return false, false
			}
			w.led.inCommit = true
			// "the commit reports an error" includes that it returns: the call runs on its own goroutine and is waited
			// for with a limit four orders of magnitude above its normal duration (see c14Bounded)
			errc := make(chan error, 1)
			go func() {
				if plan.relaxed {
					errc <- w.ps.NondeterministicFastCommit(plan.workers)
				} else {
					errc <- w.ps.FastCommit(plan.workers)
				}
			}()
			var err error
			select {
			case err = <-errc:
			case <-time.After(c14Limit):
				return errCommitTimeout // the world is abandoned (the commit goroutine may still hold it)
			}
			w.led.inCommit = false
			w.led.FailWrite = nil
			if !fired {
				return fmt.Errorf("verif: fault position %d was never reached", k)
			}
			if err == nil {
				return viol("commit-swallowed", "commit returned nil although ledger write %d failed", k)
			}
			if !isExternalError(err) || !errors.Is(err, ErrInjected) {
				// the property only demands that an error is reported; its category is counted, not judged
				out.stats["commit-errors-not-external"]++
			}
			out.stats["faulted-commits"]++
			// every pre-commit pending change is either durably applied or still pending
			pendingAfter, _ := atree.VerifStorageLayers(w.ps)
			still := map[atree.SlabID]bool{}
			for _, e := range pendingAfter {
				still[e.ID] = true
			}
			stillOwned := 0
			for _, e := range pendingBefore {
				if e.ID.Address() == atree.AddressUndefined {
					continue
				}
				if still[e.ID] {
					stillOwned++
					continue
				}
				got, ok := w.led.regs[e.ID]
				exp, eok := want[e.ID]
				if ok != eok || !bytes.Equal(got, exp) {
					return viol("commit-lost", "after a failed commit, slab %s is no longer pending but the ledger does not hold its latest value (present %v, expected present %v)", e.ID, ok, eok)
				}
			}
			if int(w.ps.DeltasWithoutTempAddresses()) != stillOwned {
				return viol("commit-counts", "DeltasWithoutTempAddresses = %d, %d owned changes still pending", w.ps.DeltasWithoutTempAddresses(), stillOwned)
			}
			// reads through the storage return the latest values
			for id := range w.st.Universe {
				if id.Address() == atree.AddressUndefined {
					continue
				}
				slab, found, err := w.ps.Retrieve(id)
				if err != nil {
					return viol("commit-read", "Retrieve(%s) after a failed commit: %v", id, err)
				}
				exp, eok := want[id]
				if found != eok {
					return viol("commit-read", "after a failed commit Retrieve(%s) found=%v, latest state says %v", id, found, eok)
				}
				if found {
					b, err := atree.EncodeSlab(slab, cborEncMode)
					if err != nil || !bytes.Equal(b, exp) {
						return viol("commit-read", "after a failed commit Retrieve(%s) does not return the latest version", id)
					}
				}
			}
			return w.CheckDeep()
		}
		if err := attempt(inj.k); err != nil {
			return err
		}
		if inj.retryLater {
			out.stats["retry-later"]++
			out.snaps = append(out.snaps, nil)
			return nil
		}
		for ri, kn := range inj.ks {
			pendingBefore, _ = atree.VerifStorageLayers(w.ps)
			if err := attempt(kn); err != nil {
				if _, ok := err.(*Violation); ok {
					return err
				}
				// fewer writes left than kn: this retry succeeded
				break
			}
			if ri == 0 {
				out.stats["double-faults"]++
			} else {
				out.stats["triple-faults"]++
			}
		}
		// retry until success
		if err := w.Commit(plan.relaxed, plan.workers); err != nil {
			return err
		}
		out.stats["retries-to-success"]++
		if got := w.led.Snapshot(); regsDigest(got) != regsDigest(want) {
			return viol("commit-retry", "after retrying the commit the registers differ from the fault-free commit: %v", diffRegs(want, got))
		}
		if w.ps.DeltasWithoutTempAddresses() != 0 {
			return viol("commit-retry", "%d owned changes still pending after a successful retry", w.ps.DeltasWithoutTempAddresses())
		}
		out.snaps = append(out.snaps, w.led.Snapshot())
		return nil
	}
	for i := 1; i <= plan.ops; i++ {
		root := roots[w.rng.Intn(len(roots))]
		ph := PhaseChurn
		if i < plan.ops/3 {
			ph = PhaseGrow
		}
		if err := w.Step(root, ph, hist); err != nil {
			return out, err
		}
		if plan.commitAt[i] {
			if err := doCommit(); err != nil {
				return out, err
			}
		}
	}
	if err := doCommit(); err != nil {
		return out, err
	}
	out.final = w.led.Snapshot()
	return out, nil
}

func runC14(c *CaseCtx) *CaseResult {
	r := rand.New(rand.NewSource(c.CaseSeed() ^ 0xc14))
	plan := &c14Plan{
		seed:     c.CaseSeed(),
		kind:     []string{"array", "map"}[c.Case%2],
		slab:     []uint32{256, 512, 1024}[c.Case/2%3],
		ops:      40 + r.Intn(40),
		commitAt: map[int]bool{},
		relaxed:  c.Case%4 >= 2,
		workers:  []int{1, 2, 8}[c.Case/4%3],
		owners:   1 + c.Case%3,
	}
	for i := 0; i < 3; i++ {
		plan.commitAt[5+r.Intn(plan.ops-5)] = true
	}
	res := &CaseResult{Stats: newStats(), Obs: map[string]int{}}
	res.Config = map[string]any{"kind": plan.kind, "slab_size": plan.slab, "ops": plan.ops, "relaxed_commit": plan.relaxed, "workers": plan.workers, "owners": plan.owners}
	if atomic.LoadInt64(&c14HangSeen) != 0 {
		res.Obs["cases-skipped-after-a-reported-hang"]++
		res.Hash = uint64(c.Case)
		return res
	}
	twin, err := c14Run(plan, nil, nil)
	fail := func(err error, what string) *CaseResult {
		if v, ok := err.(*Violation); ok {
			res.fail(viol(v.Sig, "%s: %s", what, v.Msg))
		} else {
			res.fail(viol("harness", "%s: %v", what, err))
		}
		return res
	}
	res.Trace = twin.w.trace
	res.Hash = traceHash(res.Config, res.Trace)
	if err != nil {
		return fail(err, "fault-free twin")
	}
	res.Stats.merge(twin.w.stats)
	ncommits := len(twin.writes)
	evals := 0
	fullyEnumerated := 0
	for j := 0; j < ncommits; j++ {
		W := twin.writes[j] + twin.deletes[j]
		if W == 0 {
			continue
		}
		if W > 60 && c.Tier != "thorough" {
			continue
		}
		for k := 1; k <= W; k++ {
			for _, apply := range []bool{false, true} {
				for _, later := range []bool{false, true} {
					inj := &c14Inject{commitIdx: j, k: k, apply: apply, retryLater: later}
					if later && j == ncommits-1 {
						continue // nothing follows the final commit
					}
					out, err := c14Bounded(plan, inj, twin, res.Obs)
					evals++
					for kk, v := range out.stats {
						res.Obs[kk] += v
					}
					if err != nil {
						res.Config["failing_injection"] = fmt.Sprintf("commit %d of %d, position %d of %d, applied-anyway=%v, retry-later=%v", j, ncommits, k, W, apply, later)
						return fail(err, fmt.Sprintf("fault at commit %d position %d/%d (applied anyway: %v, retry later: %v)", j, k, W, apply, later))
					}
					if regsDigest(out.final) != regsDigest(twin.final) {
						res.Config["failing_injection"] = fmt.Sprintf("commit %d position %d applied=%v later=%v", j, k, apply, later)
						res.fail(viol("commit-converge", "after a failed commit %d (position %d/%d, applied anyway %v, retry later %v) and later successful commits the final registers differ from the fault-free run: %v",
							j, k, W, apply, later, diffRegs(twin.final, out.final)))
						return res
					}
				}
			}
		}
		// pairs: a second fault during the first retry
		if W <= 12 {
			for k := 1; k <= W; k++ {
				for k2 := 1; k2 <= W-k+1; k2++ {
					seqs := [][]int{{k2}}
					if W <= 6 {
						for k3 := 1; k3 <= W-k-k2+2; k3++ {
							seqs = append(seqs, []int{k2, k3})
						}
					}
					for _, ks := range seqs {
						inj := &c14Inject{commitIdx: j, k: k, ks: ks}
						out, err := c14Bounded(plan, inj, twin, res.Obs)
						evals++
						for kk, v := range out.stats {
							res.Obs[kk] += v
						}
						if err != nil {
							return fail(err, fmt.Sprintf("faults at commit %d positions %d then %v", j, k, ks))
						}
						if regsDigest(out.final) != regsDigest(twin.final) {
							res.fail(viol("commit-converge", "repeated faults at commit %d (%d then %v): final registers differ: %v", j, k, ks, diffRegs(twin.final, out.final)))
							return res
						}
					}
				}
			}
			res.Obs["commits-with-all-pairs"]++
		}
		fullyEnumerated++
		if W >= 4 && twin.deletes[j] >= 1 {
			res.Obs["enumerated-commits-with-4-writes-and-a-delete"]++
		}
	}
	res.Evals = evals
	res.Obs["commits-fully-enumerated"] += fullyEnumerated
	res.NonTrivial = res.Obs["enumerated-commits-with-4-writes-and-a-delete"] > 0
	return res
}

// ---------------------------------------------------------------------------------------------
// C15: write-back overlay model

// idForcer is a tiny SlabStorage used to mint StorableSlab objects under chosen ids.
type idForcer struct {
	id   atree.SlabID
	slab atree.Slab
}

func (f *idForcer) Store(id atree.SlabID, s atree.Slab) error { f.slab = s; return nil }
func (f *idForcer) Retrieve(atree.SlabID) (atree.Slab, bool, error) {
	return nil, false, nil
}
func (f *idForcer) RetrieveIfLoaded(atree.SlabID) atree.Slab           { return nil }
func (f *idForcer) Remove(atree.SlabID) error                          { return nil }
func (f *idForcer) GenerateSlabID(atree.Address) (atree.SlabID, error) { return f.id, nil }
func (f *idForcer) Count() int                                         { return 0 }
func (f *idForcer) SlabIterator() (atree.SlabIterator, error)          { return nil, nil }

func mintSlab(id atree.SlabID, version uint64) atree.Slab {
	f := &idForcer{id: id}
	v := tu.Uint64Value(version)
	if _, err := atree.NewStorableSlab(f, id.Address(), v, v.ByteSize()); err != nil {
		panic(err)
	}
	return f.slab
}

func versionOf(s atree.Slab) (uint64, bool) {
	vi := atree.VerifSlabInfo(s)
	if vi == nil || vi.Kind != "storable" {
		return 0, false
	}
	u, ok := vi.Storable.(tu.Uint64Value)
	return uint64(u), ok
}

type ovState struct {
	ledger  map[atree.SlabID]uint64 // committed version (absent = not in map)
	delta   map[atree.SlabID]uint64 // pending version; 0 = tombstone
	loaded  map[atree.SlabID]bool   // must be loaded (documented transitions)
	dropped map[atree.SlabID]bool   // must NOT be loaded (since the last drop / re-creation nothing loaded it)
}

type overlay struct {
	ids   []atree.SlabID
	led   *Ledger
	ps    *atree.PersistentSlabStorage
	m     ovState
	nextV uint64
	trace []string
	obs   map[string]int
	// amb: ids whose last ledger write took effect although it was reported as failed. Until the cache entry is
	// refreshed (successful commit, preload, drop-cache, re-creation) the cache legitimately lags behind the ledger,
	// so cache-level observations of these ids are not specified by the property and are not asserted.
	amb map[atree.SlabID]bool
}

func newOverlay(ids []atree.SlabID) *overlay {
	o := &overlay{ids: ids, led: NewLedger(), obs: map[string]int{}, amb: map[atree.SlabID]bool{}}
	o.ps = newStorage(o.led)
	o.m = ovState{ledger: map[atree.SlabID]uint64{}, delta: map[atree.SlabID]uint64{}, loaded: map[atree.SlabID]bool{}, dropped: map[atree.SlabID]bool{}}
	for _, id := range ids {
		o.m.dropped[id] = true
	}
	o.nextV = 100
	return o
}

// view: most recent stored/removed through the storage, else the committed one.
func (o *overlay) view(id atree.SlabID) (uint64, bool) {
	if v, ok := o.m.delta[id]; ok {
		return v, v != 0
	}
	v, ok := o.m.ledger[id]
	return v, ok
}

func (o *overlay) markLoaded(id atree.SlabID) { o.m.loaded[id] = true; delete(o.m.dropped, id) }

// check compares every non-mutating observation with the model.
func (o *overlay) check() error {
	pending, pendingOwned := 0, 0
	var size uint64
	unsaved := map[atree.Address]bool{}
	for id, v := range o.m.delta {
		pending++
		unsaved[id.Address()] = true
		if id.Address() != atree.AddressUndefined {
			pendingOwned++
			if v != 0 {
				size += uint64(2 + tu.Uint64Value(v).ByteSize())
			}
		}
	}
	if int(o.ps.Deltas()) != pending {
		return viol("overlay-counts", "Deltas() = %d, model %d", o.ps.Deltas(), pending)
	}
	if int(o.ps.DeltasWithoutTempAddresses()) != pendingOwned {
		return viol("overlay-counts", "DeltasWithoutTempAddresses() = %d, model %d", o.ps.DeltasWithoutTempAddresses(), pendingOwned)
	}
	if o.ps.DeltasSizeWithoutTempAddresses() != size {
		return viol("overlay-counts", "DeltasSizeWithoutTempAddresses() = %d, model %d", o.ps.DeltasSizeWithoutTempAddresses(), size)
	}
	addrs := map[atree.Address]bool{}
	for _, id := range o.ids {
		addrs[id.Address()] = true
	}
	for a := range addrs {
		if o.ps.HasUnsavedChanges(a) != unsaved[a] {
			return viol("overlay-counts", "HasUnsavedChanges(%x) = %v, model %v", a, o.ps.HasUnsavedChanges(a), unsaved[a])
		}
	}
	// exact write set
	deltas, _ := atree.VerifStorageLayers(o.ps)
	if len(deltas) != len(o.m.delta) {
		return viol("overlay-writeset", "write set has %d entries, model %d", len(deltas), len(o.m.delta))
	}
	for _, e := range deltas {
		mv, ok := o.m.delta[e.ID]
		if !ok {
			return viol("overlay-writeset", "write set holds %s, model does not", e.ID)
		}
		if e.Present != (mv != 0) {
			return viol("overlay-writeset", "write set entry %s present=%v, model version %d", e.ID, e.Present, mv)
		}
		if e.Present {
			if gv, _ := versionOf(e.Slab); gv != mv {
				return viol("overlay-writeset", "write set entry %s holds version %d, model %d", e.ID, gv, mv)
			}
		}
	}
	// ledger content
	if len(o.led.regs) != len(o.m.ledger) {
		return viol("overlay-ledger", "ledger holds %d registers, model %d", len(o.led.regs), len(o.m.ledger))
	}
	for id, mv := range o.m.ledger {
		data, ok := o.led.regs[id]
		if !ok {
			return viol("overlay-ledger", "ledger lacks %s (model version %d)", id, mv)
		}
		exp, _ := atree.EncodeSlab(mintSlab(id, mv), cborEncMode)
		if !bytes.Equal(data, exp) {
			return viol("overlay-ledger", "ledger register %s does not hold version %d", id, mv)
		}
		if id.Address() == atree.AddressUndefined {
			return viol("overlay-ledger", "temporary-address slab %s was written", id)
		}
	}
	// is-loaded
	for _, id := range o.ids {
		s := o.ps.RetrieveIfLoaded(id)
		if dv, ok := o.m.delta[id]; ok {
			if (s != nil) != (dv != 0) {
				return viol("overlay-loaded", "RetrieveIfLoaded(%s) loaded=%v with pending version %d", id, s != nil, dv)
			}
			if s != nil {
				if gv, _ := versionOf(s); gv != dv {
					return viol("overlay-loaded", "RetrieveIfLoaded(%s) returns version %d while version %d is pending", id, gv, dv)
				}
			}
			continue
		}
		if o.amb[id] {
			continue
		}
		lv, lok := o.m.ledger[id]
		if s != nil {
			gv, _ := versionOf(s)
			if !lok || gv != lv {
				return viol("overlay-loaded", "RetrieveIfLoaded(%s) returns version %d, committed version %d (present %v)", id, gv, lv, lok)
			}
			if o.m.dropped[id] {
				return viol("overlay-loaded", "%s is loaded although nothing loaded it since the cache was dropped", id)
			}
		} else if o.m.loaded[id] && lok {
			return viol("overlay-loaded", "%s should be loaded (was read / committed) but RetrieveIfLoaded returns nil", id)
		}
	}
	return nil
}

// op codes
const (
	ovStore = iota
	ovRemove
	ovRetrieve
	ovRetrieveIgnCache
	ovRetrieveIgnNoCache
	ovFast1
	ovFast3
	ovRelaxed1
	ovRelaxed3
	ovDropDeltas
	ovDropCache
	ovPreloadSome
	ovPreloadAll
	ovRecreate
	ovFastFault // arg: position, apply flag
	ovRelaxedFault
	ovNumOps
)

type ovOp struct {
	code  int
	id    int // index into ids (per-id ops)
	k     int // fault position
	apply bool
	set   uint32 // preload subset bitmask
}

func (p ovOp) String() string {
	names := []string{"store", "remove", "retrieve", "retrieve-ignoring-deltas(cache)", "retrieve-ignoring-deltas(nocache)", "fastcommit(1)", "fastcommit(3)",
		"relaxedcommit(1)", "relaxedcommit(3)", "dropdeltas", "dropcache", "preload(subset)", "preload(all x2)", "recreate", "fastcommit+fault", "relaxedcommit+fault"}
	return fmt.Sprintf("%s id=%d k=%d apply=%v set=%b", names[p.code], p.id, p.k, p.apply, p.set)
}

func (o *overlay) apply(p ovOp) error {
	o.trace = append(o.trace, p.String())
	o.obs[fmt.Sprintf("op-%02d", p.code)]++
	id := o.ids[p.id%len(o.ids)]
	readCheck := func(slab atree.Slab, found bool, err error, wantV uint64, wantOK bool, what string) error {
		if err != nil {
			return viol("overlay-read", "%s(%s) failed: %v", what, id, err)
		}
		if found != wantOK || (slab != nil) != wantOK {
			return viol("overlay-read", "%s(%s) found=%v, model %v", what, id, found, wantOK)
		}
		if found {
			if gv, _ := versionOf(slab); gv != wantV {
				return viol("overlay-read", "%s(%s) returns version %d, model %d", what, id, gv, wantV)
			}
		}
		return nil
	}
	commitModel := func() {
		for did, v := range o.m.delta {
			if did.Address() == atree.AddressUndefined {
				continue
			}
			if v == 0 {
				delete(o.m.ledger, did)
				delete(o.m.loaded, did)
			} else {
				o.m.ledger[did] = v
				o.markLoaded(did)
			}
			delete(o.m.delta, did)
			delete(o.amb, did)
		}
	}
	runCommit := func(relaxed bool, workers int) error {
		o.led.inCommit = true
		defer func() { o.led.inCommit = false }()
		if relaxed {
			return o.ps.NondeterministicFastCommit(workers)
		}
		return o.ps.FastCommit(workers)
	}
	switch p.code {
	case ovStore:
		o.nextV++
		if err := o.ps.Store(id, mintSlab(id, o.nextV)); err != nil {
			return viol("overlay-op", "Store failed: %v", err)
		}
		o.m.delta[id] = o.nextV
	case ovRemove:
		if err := o.ps.Remove(id); err != nil {
			return viol("overlay-op", "Remove failed: %v", err)
		}
		o.m.delta[id] = 0
	case ovRetrieve:
		s, found, err := o.ps.Retrieve(id)
		v, ok := o.view(id)
		if err := readCheck(s, found, err, v, ok, "Retrieve"); err != nil {
			return err
		}
		if _, pending := o.m.delta[id]; !pending && ok {
			o.markLoaded(id)
		}
	case ovRetrieveIgnCache, ovRetrieveIgnNoCache:
		if o.amb[id] {
			break
		}
		s, found, err := o.ps.RetrieveIgnoringDeltas(id, p.code == ovRetrieveIgnCache)
		v, ok := o.m.ledger[id]
		if err := readCheck(s, found, err, v, ok, "RetrieveIgnoringDeltas"); err != nil {
			return err
		}
		if p.code == ovRetrieveIgnCache && ok {
			o.markLoaded(id)
		}
	case ovFast1, ovFast3, ovRelaxed1, ovRelaxed3:
		relaxed := p.code == ovRelaxed1 || p.code == ovRelaxed3
		workers := 1
		if p.code == ovFast3 || p.code == ovRelaxed3 {
			workers = 3
		}
		if err := runCommit(relaxed, workers); err != nil {
			return viol("overlay-op", "commit failed without a fault: %v", err)
		}
		commitModel()
	case ovFastFault, ovRelaxedFault:
		o.led.ResetFaultCounters()
		o.led.logOn = true
		o.led.log = o.led.log[:0]
		o.led.FailWrite = func(n int, kind byte, _ atree.SlabID) (bool, bool) { return n == p.k, p.apply }
		err := runCommit(p.code == ovRelaxedFault, 2)
		o.led.FailWrite = nil
		o.led.logOn = false
		failedSeen := false
		for _, c := range o.led.log {
			if c.Kind != 'S' && c.Kind != 'D' {
				continue
			}
			v, pending := o.m.delta[c.ID]
			if !pending {
				return viol("overlay-commit", "commit wrote %s which has no pending change", c.ID)
			}
			if c.Failed {
				failedSeen = true
				if p.apply { // took effect but reported failure: ledger changed, change stays pending
					if v == 0 {
						delete(o.m.ledger, c.ID)
					} else {
						o.m.ledger[c.ID] = v
					}
					// cache may now be stale w.r.t. the ledger only through the pending entry, which shadows it
					delete(o.m.loaded, c.ID)
					o.m.dropped[c.ID] = false
					o.amb[c.ID] = true
					o.obs["ambiguous-failures"]++
				}
				continue
			}
			delete(o.amb, c.ID)
			if v == 0 {
				delete(o.m.ledger, c.ID)
				delete(o.m.loaded, c.ID)
			} else {
				o.m.ledger[c.ID] = v
				o.markLoaded(c.ID)
			}
			delete(o.m.delta, c.ID)
		}
		if failedSeen {
			o.obs["faulted-commits"]++
			if err == nil {
				return viol("overlay-commit", "commit returned nil although a ledger write failed")
			}
			if !isExternalError(err) || !errors.Is(err, ErrInjected) {
				o.obs["commit-errors-not-external"]++
			}
		} else if err != nil {
			return viol("overlay-commit", "commit failed although no fault fired: %v", err)
		}
	case ovDropDeltas:
		o.ps.DropDeltas()
		o.m.delta = map[atree.SlabID]uint64{}
		if len(o.amb) == 0 {
			break
		}
		// after an ambiguous ledger failure only "drop the write set AND the cache" is specified
		fallthrough
	case ovDropCache:
		o.amb = map[atree.SlabID]bool{}
		o.ps.DropCache()
		o.m.loaded = map[atree.SlabID]bool{}
		for _, x := range o.ids {
			o.m.dropped[x] = true
		}
	case ovPreloadSome, ovPreloadAll:
		var ids []atree.SlabID
		if p.code == ovPreloadAll {
			// above the parallel threshold (11 ids): every id several times is not allowed (duplicates would be
			// decoded twice); use the universe plus absent ids
			ids = append(ids, o.ids...)
			for i := 0; len(ids) < 14; i++ {
				var idx atree.SlabIndex
				putUint64(idx[:], uint64(9000+i))
				ids = append(ids, atree.NewSlabID(o.ids[0].Address(), idx))
			}
		} else {
			for i, x := range o.ids {
				if p.set&(1<<uint(i)) != 0 {
					ids = append(ids, x)
				}
			}
		}
		if err := o.ps.BatchPreload(ids, 3); err != nil {
			return viol("overlay-op", "BatchPreload failed: %v", err)
		}
		for _, x := range ids {
			if _, ok := o.m.ledger[x]; ok {
				o.markLoaded(x)
				delete(o.amb, x)
			}
		}
	case ovRecreate:
		o.amb = map[atree.SlabID]bool{}
		o.ps = newStorage(o.led)
		o.m.delta = map[atree.SlabID]uint64{}
		o.m.loaded = map[atree.SlabID]bool{}
		for _, x := range o.ids {
			o.m.dropped[x] = true
		}
	}
	if len(o.led.QuietViolations) > 0 {
		return viol("quiet", "%s", o.led.QuietViolations[0])
	}
	return o.check()
}

// abstract state for the closure: per id (ledger present, loaded, write-set state)
func (o *overlay) abstract() string {
	b := make([]byte, 0, len(o.ids)*3)
	for _, id := range o.ids {
		_, l := o.m.ledger[id]
		c := o.ps.RetrieveIfLoaded(id) != nil
		d := byte('n')
		if v, ok := o.m.delta[id]; ok {
			if v == 0 {
				d = 't'
			} else {
				d = 's'
			}
			// loaded is shadowed by the write set; look at the cache through the ignoring-deltas read without caching
			_, cache := atree.VerifStorageLayers(o.ps)
			c = false
			for _, e := range cache {
				if e.ID == id && e.Present {
					c = true
				}
			}
		}
		lb, cb := byte('0'), byte('0')
		if l {
			lb = '1'
		}
		if c {
			cb = '1'
		}
		b = append(b, lb, cb, d)
	}
	return string(b)
}

func c15IDs() []atree.SlabID {
	mk := func(a atree.Address, i uint64) atree.SlabID {
		var idx atree.SlabIndex
		putUint64(idx[:], i)
		return atree.NewSlabID(a, idx)
	}
	return []atree.SlabID{mk(addrOf(1, 0), 1), mk(addrOf(1, 0), 2), mk(addrOf(2, 0x80), 1), mk(atree.AddressUndefined, 1)}
}

func randomOvOp(r *rand.Rand, nids int) ovOp {
	p := ovOp{id: r.Intn(nids)}
	roll := r.Intn(100)
	switch {
	case roll < 22:
		p.code = ovStore
	case roll < 32:
		p.code = ovRemove
	case roll < 44:
		p.code = ovRetrieve
	case roll < 50:
		p.code = ovRetrieveIgnCache
	case roll < 55:
		p.code = ovRetrieveIgnNoCache
	case roll < 61:
		p.code = ovFast1 + r.Intn(4)
	case roll < 70:
		p.code = ovFastFault + r.Intn(2)
		p.k = 1 + r.Intn(3)
		p.apply = r.Intn(2) == 0
	case roll < 75:
		p.code = ovDropDeltas
	case roll < 82:
		p.code = ovDropCache
	case roll < 90:
		p.code = ovPreloadSome
		p.set = uint32(r.Intn(1 << uint(nids)))
	case roll < 95:
		p.code = ovPreloadAll
	default:
		p.code = ovRecreate
	}
	return p
}

const c15ClosureShards = 1

func runC15(c *CaseCtx) *CaseResult {
	res := &CaseResult{Stats: newStats(), Obs: map[string]int{}}
	if c.Tier == "thorough" && c.Case == 0 {
		return c15Closure(c, res, c15IDs()[1:])
	}
	if c.Tier == "thorough" && c.Case == 1 {
		return c15Closure(c, res, c15IDs())
	}
	r := rand.New(rand.NewSource(c.CaseSeed()))
	ids := c15IDs()
	walks := 250
	res.Config = map[string]any{"kind": "random walks", "walks": walks, "length": 30, "ids": len(ids)}
	states := map[string]bool{}
	for wi := 0; wi < walks; wi++ {
		o := newOverlay(ids)
		for step := 0; step < 30; step++ {
			if err := o.apply(randomOvOp(r, len(ids))); err != nil {
				res.fail(err.(*Violation))
				res.Trace = o.trace
				res.Hash = traceHash(res.Config, o.trace)
				return res
			}
			states[o.abstract()] = true
		}
		for k, v := range o.obs {
			res.Obs[k] += v
		}
		if wi == 0 {
			res.Trace = o.trace
		}
	}
	res.Evals = walks
	res.Obs["abstract-states-visited"] += len(states)
	res.Obs["steps"] += walks * 30
	res.Hash = traceHash(res.Config, res.Trace)
	res.NonTrivial = len(states) > 50 && res.Obs["faulted-commits"] > 0
	return res
}

// c15Closure explores the abstract state space of the real storage object to closure: from every reached
// abstract state every deterministic operation is applied (the state is restored by replaying its path).
func c15Closure(c *CaseCtx, res *CaseResult, ids []atree.SlabID) *CaseResult {
	// ids: 3 (two owners + temporary address) or 4 (one owner twice, a second owner, temporary address)
	var ops []ovOp
	for i := range ids {
		for _, code := range []int{ovStore, ovRemove, ovRetrieve, ovRetrieveIgnCache, ovRetrieveIgnNoCache} {
			ops = append(ops, ovOp{code: code, id: i})
		}
	}
	for _, code := range []int{ovFast1, ovFast3, ovRelaxed1, ovDropDeltas, ovDropCache, ovPreloadAll, ovRecreate} {
		ops = append(ops, ovOp{code: code})
	}
	for set := uint32(1); set < 1<<uint(len(ids)); set++ {
		if len(ids) > 3 && set&(set-1) != 0 && set != 1<<uint(len(ids))-1 {
			continue // 4 ids: singletons and the full set only
		}
		ops = append(ops, ovOp{code: ovPreloadSome, set: set})
	}
	for k := 1; k <= 2; k++ {
		for _, ap := range []bool{false, true} {
			ops = append(ops, ovOp{code: ovFastFault, k: k, apply: ap})
		}
	}
	res.Config = map[string]any{"kind": "closure over abstract states of the real storage object", "ids": len(ids), "operations": len(ops)}
	type node struct{ path []ovOp }
	replay := func(path []ovOp) (*overlay, error) {
		o := newOverlay(ids)
		for _, p := range path {
			if err := o.apply(p); err != nil {
				return o, err
			}
		}
		return o, nil
	}
	start := newOverlay(ids)
	seen := map[string]bool{start.abstract(): true}
	queue := []node{{}}
	transitions := 0
	for len(queue) > 0 {
		n := queue[0]
		queue = queue[1:]
		for _, p := range ops {
			o, err := replay(n.path)
			if err == nil {
				err = o.apply(p)
			}
			transitions++
			if err != nil {
				res.fail(err.(*Violation))
				res.Trace = o.trace
				res.Hash = traceHash(res.Config, o.trace)
				return res
			}
			a := o.abstract()
			if !seen[a] {
				seen[a] = true
				queue = append(queue, node{path: append(append([]ovOp(nil), n.path...), p)})
				if len(res.Trace) < 40 {
					res.Trace = append(res.Trace, fmt.Sprintf("new abstract state %s via %v", a, p))
				}
			}
		}
		if len(seen) > 400000 {
			res.fail(viol("harness", "closure did not terminate within 400000 abstract states"))
			return res
		}
	}
	res.Evals = transitions
	res.Obs[fmt.Sprintf("closure-%d-ids-abstract-states", len(ids))] = len(seen)
	res.Obs[fmt.Sprintf("closure-%d-ids-transitions", len(ids))] = transitions
	res.Obs["closures-closed"] += 1
	keys := make([]string, 0, len(seen))
	for k := range seen {
		keys = append(keys, k)
	}
	sort.Strings(keys)
	res.Hash = traceHash(res.Config, keys)
	res.NonTrivial = true
	return res
}

func init() {
	cases := func(q, t int) func(string) int {
		return func(tier string) int {
			if tier == "thorough" {
				return t
			}
			return q
		}
	}
	register(&Prop{
		ID: "C14", Level: "fault_enumeration", Run: runC14, Cases: cases(320, 1600), MinNonTrivial: 8,
		Rule: "each case = one short seeded container history (1-3 owner addresses, arrays and maps, 4 commits) and its fault-free twin; for EVERY commit and EVERY position k of a ledger write/delete issued by that commit the history is re-executed with call k failing, " +
			"in both modes (not applied / applied but reported failed), with immediate retry-until-success and with retry-later (continue the history, commit later), plus all pairs (second fault during the retry) for commits of <=12 writes and all triples for commits of <=6 writes; FastCommit and NondeterministicFastCommit, workers 1/2/8. " +
			"Checked after each failure: error is an external error wrapping the fault; every pre-commit pending change is durably in the ledger (byte-equal to the twin) or still in the write set; pending counts agree; Retrieve returns the latest version of every slab; containers deep-equal the model; after retry registers byte-equal the twin's; final registers byte-equal the twin's. " +
			"non-trivial = a commit with >=4 writes incl. >=1 deletion had all single positions enumerated; distinct by hash(config, operation list)",
		Assumptions: []string{"numWorkers = 0 is outside the property's domain and not generated", "fault enumeration is complete per commit over single positions (and pairs for small commits), histories are sampled"},
		Mandatory:   []string{"faulted-commits", "retries-to-success", "retry-later", "double-faults", "triple-faults", "commits-fully-enumerated"},
	})
	register(&Prop{
		ID: "C15", Level: "exploration", Run: runC15, Cases: cases(320, 801), MinNonTrivial: 8,
		Rule: "universe = 4 slab ids (two owners, one of them twice, plus one temporary-address id); every stored version is a fresh immutable slab with a unique payload so each read identifies the write it observed. " +
			"Quick: per case 250 PRNG walks of 30 steps over {store, remove, retrieve, retrieve-ignoring-deltas (caching / not), fast and relaxed commit with 1/3 workers, commits with an injected fault at position 1-3 (applied or not), drop-deltas, drop-cache, preload of a subset / of 14 ids (parallel path), storage re-creation}; after EVERY step all observations " +
			"(exact write set, ledger bytes, is-loaded, Deltas, DeltasWithoutTempAddresses, DeltasSizeWithoutTempAddresses, HasUnsavedChanges per owner, read results) are compared with a three-layer model. Thorough additionally (case 0): closure over the abstract state space (per id: committed?, cached?, pending none/tombstone/version) of the REAL object, every operation from every reached state. " +
			"non-trivial = >50 abstract states visited and >=1 faulted commit; distinct by hash(config, first walk)",
		Assumptions: []string{"stored slabs are never mutated in place in this universe (that is C03/C08 territory)", "is-loaded is asserted exactly only for the documented transitions (read/commit/preload load, drop-cache/re-creation unload)"},
		Mandatory:   []string{"faulted-commits", "abstract-states-visited", "op-13", "op-12"},
	})
}
