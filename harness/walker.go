package main

import (
	"fmt"

	"github.com/onflow/atree"
	tu "github.com/onflow/atree/test_utils"
)

// Size constants of the encoding, restated here (independently of atree's unexported constants)
// from the documented layout. The C05 arithmetic sweep and the C06 byte-level monitor
// cross-check them against real encodings.
const (
	szArrayRootDataPrefix    = 2 + 3
	szArrayDataPrefix        = 2 + 16 + 3
	szArrayInlinedDataPrefix = 2 + 1 + 2 + 1 + 8 + 3
	szArrayMetaPrefix        = 2 + 8 + 2
	szArrayChildHeader       = 8 + 4 + 2
	szMapRootDataPrefix      = 2
	szMapDataPrefix          = 2 + 16
	szMapInlinedDataPrefix   = 2 + 1 + 2 + 1 + 8
	szMapMetaPrefix          = 2 + 8 + 2
	szMapChildHeader         = 8 + 2 + 8
	szHkeyElementsPrefix     = 1 + 1 + 3 + 3
	szSingleElementsPrefix   = 1 + 1 + 1 + 3
	szDigest                 = 8
	szSingleElementPrefix    = 1
	szInlineGroupPrefix      = 2
	szExternalGroupPrefix    = 2
	szSlabIDStorable         = 2 + 1 + 16
)

// SlabGetter resolves a slab id (live storage or decoded registers).
type SlabGetter func(id atree.SlabID) (atree.Slab, bool, error)

// TreeStats is what one walk observed.
type TreeStats struct {
	Slabs             int
	DataSlabs         int
	MetaSlabs         int
	Depth             int
	MaxChildren       int
	Elements          int
	InlinedSlabs      int
	Standalone        int // nested containers stored as separate slabs
	LargeValues       int
	InlineGroups      int
	ExternalGroups    int
	ListGroups        int // groups at the last level (no digests left)
	MaxListLen        int
	NearMax           int // size-limited slabs within 8 bytes of the upper bound
	NearMin           int // non-root slabs within 8 bytes of the lower bound
	CompactCand       int // inlined composite-typed maps (compact encoding candidates)
	UncollapsedGroups int // collision groups holding a single plain element (legal, never produced by the pinned library)
}

func (s *TreeStats) add(o TreeStats) {
	s.Slabs += o.Slabs
	s.DataSlabs += o.DataSlabs
	s.MetaSlabs += o.MetaSlabs
	if o.Depth > s.Depth {
		s.Depth = o.Depth
	}
	if o.MaxChildren > s.MaxChildren {
		s.MaxChildren = o.MaxChildren
	}
	s.Elements += o.Elements
	s.InlinedSlabs += o.InlinedSlabs
	s.Standalone += o.Standalone
	s.LargeValues += o.LargeValues
	s.InlineGroups += o.InlineGroups
	s.ExternalGroups += o.ExternalGroups
	s.ListGroups += o.ListGroups
	if o.MaxListLen > s.MaxListLen {
		s.MaxListLen = o.MaxListLen
	}
	s.NearMax += o.NearMax
	s.NearMin += o.NearMin
	s.CompactCand += o.CompactCand
	s.UncollapsedGroups += o.UncollapsedGroups
}

// Walker is the independent structural monitor (M-tree / M-reg) with optional model comparison.
type Walker struct {
	get      SlabGetter
	storage  atree.SlabStorage // used only to resolve key storables to values (StoredValue)
	th       atree.VerifThresholdValues
	cb       *Callbacks
	Visited  map[atree.SlabID]int // in-degree by id for every standalone slab reached (roots: 0 + references)
	Stats    TreeStats
	addr     atree.Address
	checkDig bool // verify digests of keys against the map's digester
	// CheckInlineRule: a standalone nested container must not be inlinable, an inlined one must fit.
	CheckInlineRule bool

	digOverride    atree.DigesterBuilder  // when set: the digester of every map walked (small-scope cases)
	Inline         map[atree.ValueID]bool // nested containers seen: value id -> stored inline?
	wantLeaves     bool
	RootLeafCounts []uint32 // element counts of the leaves of the first array walked with wantLeaves
}

func NewWalker(get SlabGetter, storage atree.SlabStorage, cb *Callbacks) *Walker {
	return &Walker{
		get:             get,
		storage:         storage,
		th:              atree.VerifThresholds(),
		cb:              cb,
		Visited:         make(map[atree.SlabID]int),
		checkDig:        true,
		CheckInlineRule: true,
	}
}

func liveGetter(st atree.SlabStorage) SlabGetter {
	return func(id atree.SlabID) (atree.Slab, bool, error) { return st.Retrieve(id) }
}

// registerGetter decodes slabs straight from a register map (memoised).
func registerGetter(regs map[atree.SlabID][]byte) SlabGetter {
	memo := make(map[atree.SlabID]atree.Slab)
	return func(id atree.SlabID) (atree.Slab, bool, error) {
		if s, ok := memo[id]; ok {
			return s, true, nil
		}
		data, ok := regs[id]
		if !ok {
			return nil, false, nil
		}
		s, err := atree.DecodeSlab(id, data, cborDecMode, decodeStorable, decodeTypeInfo)
		if err != nil {
			return nil, true, fmt.Errorf("register %s does not decode: %w", id, err)
		}
		memo[id] = s
		return s, true, nil
	}
}

func (w *Walker) info(id atree.SlabID) (*atree.VerifSlab, error) {
	s, ok, err := w.get(id)
	if err != nil {
		return nil, fmt.Errorf("slab %s: retrieve failed: %w", id, err)
	}
	if !ok || s == nil {
		return nil, fmt.Errorf("slab %s: referenced but not found (dangling reference)", id)
	}
	vi := atree.VerifSlabInfo(s)
	if vi == nil {
		return nil, fmt.Errorf("slab %s: unknown slab type %T", id, s)
	}
	if vi.ID != id {
		return nil, fmt.Errorf("slab stored under %s reports id %s", id, vi.ID)
	}
	w.Visited[id]++
	w.Stats.Slabs++
	return vi, nil
}

// WalkRootID walks the container whose standalone root slab has the given id.
func (w *Walker) WalkRootID(id atree.SlabID, model *Node, dig *DigProfile) error {
	vi, err := w.info(id)
	if err != nil {
		return err
	}
	w.addr = id.Address()
	return w.walkRoot(vi, model, dig, "root("+id.String()+")")
}

// WalkRootSlab walks a container from a root slab object (e.g. the one a handle points at).
func (w *Walker) WalkRootSlab(s atree.Slab, model *Node, dig *DigProfile) error {
	vi := atree.VerifSlabInfo(s)
	if vi == nil {
		return fmt.Errorf("unknown root slab type %T", s)
	}
	w.addr = vi.ID.Address()
	if !vi.Inlined {
		w.Visited[vi.ID]++
		w.Stats.Slabs++
	}
	return w.walkRoot(vi, model, dig, "root("+vi.ID.String()+")")
}

func (w *Walker) walkRoot(vi *atree.VerifSlab, model *Node, dig *DigProfile, path string) error {
	if !vi.HasExtraData {
		return fmt.Errorf("%s: root slab has no extra data", path)
	}
	switch vi.Kind {
	case "array-data", "array-meta":
		if model != nil && model.Kind != KArr {
			return fmt.Errorf("%s: library has an array, model has %s", path, model)
		}
		return w.walkArrayRoot(vi, model, path)
	case "map-data", "map-meta":
		if model != nil && model.Kind != KMap {
			return fmt.Errorf("%s: library has a map, model has %s", path, model)
		}
		return w.walkMapRoot(vi, model, dig, path)
	}
	return fmt.Errorf("%s: slab kind %s cannot be a container root", path, vi.Kind)
}

// ---------------------------------------------------------------------------------------------
// arrays

type arrayLeaf struct {
	id    atree.SlabID
	next  atree.SlabID
	count uint32
}

func (w *Walker) walkArrayRoot(vi *atree.VerifSlab, model *Node, path string) error {
	if model != nil {
		if t, ok := tiOf(vi.TypeInfo); !ok || t != model.TI {
			return fmt.Errorf("%s: type info %v != model %v", path, vi.TypeInfo, model.TI)
		}
		if vid := valueIDOf(vi.ID); vid != model.VID {
			return fmt.Errorf("%s: value id %s != recorded %s", path, vid, model.VID)
		}
	}
	var elems []atree.Storable
	var leaves []arrayLeaf
	depth, err := w.walkArraySlab(vi, true, &elems, &leaves, path, 1)
	if err != nil {
		return err
	}
	if depth > w.Stats.Depth {
		w.Stats.Depth = depth
	}
	if vi.Count != uint32(len(elems)) {
		return fmt.Errorf("%s: root count %d != %d elements found by traversal", path, vi.Count, len(elems))
	}
	// sibling links = left-to-right leaf order
	for i, l := range leaves {
		want := atree.SlabIDUndefined
		if i+1 < len(leaves) {
			want = leaves[i+1].id
		}
		if l.next != want {
			return fmt.Errorf("%s: leaf %s has next %s, want %s (leaf order)", path, l.id, l.next, want)
		}
	}
	if w.wantLeaves && w.RootLeafCounts == nil {
		w.RootLeafCounts = make([]uint32, len(leaves))
		for i, l := range leaves {
			w.RootLeafCounts[i] = l.count
		}
	}
	w.Stats.Elements += len(elems)
	if model != nil && len(elems) != len(model.Elems) {
		return fmt.Errorf("%s: %d elements in slabs, model has %d", path, len(elems), len(model.Elems))
	}
	for i, e := range elems {
		var mn *Node
		if model != nil {
			mn = model.Elems[i]
		}
		if err := w.walkElement(e, mn, w.th.MaxInlineArrayElementSize, fmt.Sprintf("%s[%d]", path, i)); err != nil {
			return err
		}
	}
	return nil
}

func (w *Walker) checkBand(vi *atree.VerifSlab, isRoot bool, path string) error {
	if vi.Inlined {
		return nil
	}
	// the band is the property's, computed from the configured slab size only (not from the library's internal thresholds)
	bandMax := uint32(float64(w.th.Target) * 1.5)
	bandMin := w.th.Target / 2
	if vi.Size > bandMax {
		return fmt.Errorf("%s: slab %s size %d exceeds the upper bound %d", path, vi.ID, vi.Size, bandMax)
	}
	if vi.Size+8 >= bandMax {
		w.Stats.NearMax++
	}
	if !isRoot {
		if vi.Size < bandMin {
			return fmt.Errorf("%s: non-root slab %s size %d is below the lower bound %d", path, vi.ID, vi.Size, bandMin)
		}
		if vi.Size <= bandMin+8 {
			w.Stats.NearMin++
		}
	}
	return nil
}

func (w *Walker) walkArraySlab(vi *atree.VerifSlab, isRoot bool, elems *[]atree.Storable, leaves *[]arrayLeaf, path string, depth int) (int, error) {
	if vi.ID.Address() != w.addr {
		return 0, fmt.Errorf("%s: slab %s is owned by a different address than its root (%x)", path, vi.ID, w.addr)
	}
	if !isRoot && vi.HasExtraData {
		return 0, fmt.Errorf("%s: non-root slab %s carries extra data", path, vi.ID)
	}
	if err := w.checkBand(vi, isRoot, path); err != nil {
		return 0, err
	}
	switch vi.Kind {
	case "array-data":
		w.Stats.DataSlabs++
		if vi.Count != uint32(len(vi.ArrayElements)) {
			return 0, fmt.Errorf("%s: data slab %s header count %d != %d elements", path, vi.ID, vi.Count, len(vi.ArrayElements))
		}
		prefix := uint32(szArrayDataPrefix)
		if vi.Inlined {
			prefix = szArrayInlinedDataPrefix
		} else if isRoot {
			prefix = szArrayRootDataPrefix
		}
		sum := prefix
		for _, e := range vi.ArrayElements {
			sum += e.ByteSize()
		}
		if sum != vi.Size {
			return 0, fmt.Errorf("%s: data slab %s header size %d != prefix %d + element sizes = %d", path, vi.ID, vi.Size, prefix, sum)
		}
		if vi.Inlined && !isRoot {
			return 0, fmt.Errorf("%s: inlined flag on non-root slab %s", path, vi.ID)
		}
		if isRoot && vi.Next != atree.SlabIDUndefined {
			return 0, fmt.Errorf("%s: root data slab %s has a sibling link", path, vi.ID)
		}
		*elems = append(*elems, vi.ArrayElements...)
		*leaves = append(*leaves, arrayLeaf{vi.ID, vi.Next, vi.Count})
		return depth, nil

	case "array-meta":
		w.Stats.MetaSlabs++
		n := len(vi.Children)
		if n > w.Stats.MaxChildren {
			w.Stats.MaxChildren = n
		}
		if isRoot && n < 2 {
			return 0, fmt.Errorf("%s: root index slab %s has %d children (<2)", path, vi.ID, n)
		}
		if n == 0 {
			return 0, fmt.Errorf("%s: index slab %s has no children", path, vi.ID)
		}
		if len(vi.CountSums) != n {
			return 0, fmt.Errorf("%s: index slab %s has %d children but %d cumulative counts", path, vi.ID, n, len(vi.CountSums))
		}
		if want := uint32(szArrayMetaPrefix + n*szArrayChildHeader); vi.Size != want {
			return 0, fmt.Errorf("%s: index slab %s size %d != %d", path, vi.ID, vi.Size, want)
		}
		total := uint32(0)
		maxDepth := depth
		for i, ch := range vi.Children {
			total += ch.Count
			if vi.CountSums[i] != total {
				return 0, fmt.Errorf("%s: index slab %s cumulative count[%d]=%d, want %d", path, vi.ID, i, vi.CountSums[i], total)
			}
			cvi, err := w.info(ch.ID)
			if err != nil {
				return 0, fmt.Errorf("%s: child %d of %s: %w", path, i, vi.ID, err)
			}
			if cvi.Kind != "array-data" && cvi.Kind != "array-meta" {
				return 0, fmt.Errorf("%s: child %s of array index slab is %s", path, ch.ID, cvi.Kind)
			}
			if cvi.Size != ch.Size || cvi.Count != ch.Count {
				return 0, fmt.Errorf("%s: index slab %s header for child %s says (size %d, count %d), child says (size %d, count %d)",
					path, vi.ID, ch.ID, ch.Size, ch.Count, cvi.Size, cvi.Count)
			}
			if cvi.Inlined {
				return 0, fmt.Errorf("%s: child slab %s is flagged inlined", path, ch.ID)
			}
			d, err := w.walkArraySlab(cvi, false, elems, leaves, path, depth+1)
			if err != nil {
				return 0, err
			}
			if d > maxDepth {
				maxDepth = d
			}
		}
		if vi.Count != total {
			return 0, fmt.Errorf("%s: index slab %s count %d != sum of children %d", path, vi.ID, vi.Count, total)
		}
		return maxDepth, nil
	}
	return 0, fmt.Errorf("%s: slab %s of kind %s inside an array tree", path, vi.ID, vi.Kind)
}

func valueIDOf(id atree.SlabID) atree.ValueID {
	var v atree.ValueID
	_, _ = id.ToRawBytes(v[:])
	return v
}

// walkElement checks one stored element (array element or map value) and recurses into nested containers.
// limit is the per-element inline limit that applies at this position.
func (w *Walker) walkElement(s atree.Storable, model *Node, limit uint32, path string) error {
	if s.ByteSize() > limit {
		return fmt.Errorf("%s: stored element of %d bytes exceeds the inline limit %d", path, s.ByteSize(), limit)
	}
	inner, wraps := unwrapSomeStorable(s)
	if model != nil {
		if model.someDepth() != wraps {
			return fmt.Errorf("%s: %d wrapper levels stored, model has %d (%s)", path, wraps, model.someDepth(), model)
		}
		for i := 0; i < wraps; i++ {
			model = model.Inner
		}
	}
	wsize := someWrapperSize(wraps)
	childLimit := uint32(0)
	if limit > wsize {
		childLimit = limit - wsize
	}

	switch x := inner.(type) {
	case atree.SlabIDStorable:
		id := atree.SlabID(x)
		vi, err := w.info(id)
		if err != nil {
			return fmt.Errorf("%s: %w", path, err)
		}
		if id.Address() != w.addr {
			return fmt.Errorf("%s: reference to %s crosses owner addresses (root %x)", path, id, w.addr)
		}
		if vi.Kind == "storable" {
			w.Stats.LargeValues++
			if model != nil {
				return w.storableEqualsModel(vi.Storable, model, path+"(large)")
			}
			return nil
		}
		// nested container stored as its own slab
		w.Stats.Standalone++
		if w.Inline != nil {
			w.Inline[valueIDOf(id)] = false
		}
		if vi.Inlined {
			return fmt.Errorf("%s: slab %s is referenced by id but flagged inlined", path, id)
		}
		if w.CheckInlineRule && (vi.Kind == "array-data" || vi.Kind == "map-data") && vi.HasExtraData {
			var inlinedSize uint32
			if vi.Kind == "array-data" {
				inlinedSize = vi.Size - szArrayRootDataPrefix + szArrayInlinedDataPrefix
			} else {
				inlinedSize = vi.Size - szMapRootDataPrefix + szMapInlinedDataPrefix
			}
			if inlinedSize <= childLimit {
				return fmt.Errorf("%s: nested container %s is a single slab of inlined size %d <= limit %d but is stored as a separate slab",
					path, id, inlinedSize, childLimit)
			}
		}
		return w.walkRoot(vi, model, nil, path)

	case atree.Slab:
		vi := atree.VerifSlabInfo(x)
		if vi == nil {
			return fmt.Errorf("%s: unknown inlined slab type %T", path, x)
		}
		if !vi.Inlined {
			return fmt.Errorf("%s: slab %s is embedded in its parent but not flagged inlined", path, vi.ID)
		}
		if vi.Kind != "array-data" && vi.Kind != "map-data" {
			return fmt.Errorf("%s: inlined slab of kind %s", path, vi.Kind)
		}
		if vi.ID.Address() != w.addr {
			return fmt.Errorf("%s: inlined slab %s has a different owner address", path, vi.ID)
		}
		if vi.Size > childLimit {
			return fmt.Errorf("%s: inlined container %s of %d bytes exceeds its limit %d", path, vi.ID, vi.Size, childLimit)
		}
		w.Stats.InlinedSlabs++
		if w.Inline != nil {
			w.Inline[valueIDOf(vi.ID)] = true
		}
		if vi.Kind == "map-data" {
			if t, ok := tiOf(vi.TypeInfo); ok && t.Composite {
				w.Stats.CompactCand++
			}
		}
		return w.walkRoot(vi, model, nil, path)

	default:
		if model != nil {
			return w.storableEqualsModel(inner, model, path)
		}
		return nil
	}
}

func (w *Walker) storableEqualsModel(s atree.Storable, model *Node, path string) error {
	if model.IsContainer() || model.Kind == KSome {
		return fmt.Errorf("%s: stored scalar %v (%T), model has %s", path, s, s, model)
	}
	v, ok := s.(atree.Value)
	if !ok {
		return fmt.Errorf("%s: stored %T is not a value", path, s)
	}
	if !scalarEqual(v, model) {
		return fmt.Errorf("%s: stored %v (%T) != model %s", path, s, s, model)
	}
	return nil
}

// ---------------------------------------------------------------------------------------------
// maps

type mapLeaf struct {
	id       atree.SlabID
	next     atree.SlabID
	firstKey atree.Digest
}

type kvPair struct {
	key   atree.Storable
	value atree.Storable
	digs  []atree.Digest // digest path under which the pair was found
}

func (w *Walker) digesterFor(seed uint64, dig *DigProfile) atree.DigesterBuilder {
	if w.digOverride != nil {
		w.digOverride.SetSeed(seed, 0)
		return w.digOverride
	}
	if dig != nil {
		b := newAdvBuilder(*dig)
		b.SetSeed(seed, 0)
		return b
	}
	b := atree.NewDefaultDigesterBuilder()
	b.SetSeed(seed, 0x1BD11BDAA9FC1A22)
	return b
}

func (w *Walker) walkMapRoot(vi *atree.VerifSlab, model *Node, dig *DigProfile, path string) error {
	if model != nil {
		if t, ok := tiOf(vi.TypeInfo); !ok || t != model.TI {
			return fmt.Errorf("%s: type info %v != model %v", path, vi.TypeInfo, model.TI)
		}
		if vid := valueIDOf(vi.ID); vid != model.VID {
			return fmt.Errorf("%s: value id %s != recorded %s", path, vid, model.VID)
		}
		if dig == nil {
			dig = model.Dig
		}
	}
	if vi.MapSeed == 0 {
		return fmt.Errorf("%s: map seed is zero", path)
	}
	var pairs []kvPair
	var leaves []mapLeaf
	depth, err := w.walkMapSlab(vi, true, &pairs, &leaves, path, 1)
	if err != nil {
		return err
	}
	if depth > w.Stats.Depth {
		w.Stats.Depth = depth
	}
	if vi.MapCount != uint64(len(pairs)) {
		return fmt.Errorf("%s: map count %d != %d entries found by traversal", path, vi.MapCount, len(pairs))
	}
	for i, l := range leaves {
		want := atree.SlabIDUndefined
		if i+1 < len(leaves) {
			want = leaves[i+1].id
		}
		if l.next != want {
			return fmt.Errorf("%s: leaf %s has next %s, want %s (leaf order)", path, l.id, l.next, want)
		}
		if i > 0 && !(leaves[i-1].firstKey < l.firstKey) {
			return fmt.Errorf("%s: first digests of consecutive leaves not strictly ascending (%d, %d)", path, leaves[i-1].firstKey, l.firstKey)
		}
	}
	w.Stats.Elements += len(pairs)
	if model != nil && len(pairs) != len(model.M) {
		return fmt.Errorf("%s: %d entries in slabs, model has %d", path, len(pairs), len(model.M))
	}

	var builder atree.DigesterBuilder
	if w.checkDig && w.storage != nil {
		builder = w.digesterFor(vi.MapSeed, dig)
	}
	seen := make(map[string]bool, len(pairs))
	for i, p := range pairs {
		if p.key.ByteSize() > w.th.MaxInlineMapKeySize {
			return fmt.Errorf("%s: stored key of %d bytes exceeds the key limit %d", path, p.key.ByteSize(), w.th.MaxInlineMapKeySize)
		}
		// key → value (for identity and digest checks)
		var kn *Node
		if w.storage != nil {
			kv, err := p.key.StoredValue(w.storage)
			if err != nil {
				return fmt.Errorf("%s: key %d does not resolve: %v", path, i, err)
			}
			if ks, ok := unwrapKeyRef(p.key); ok {
				// key stored as a separate slab
				kvi, err := w.info(ks)
				if err != nil {
					return fmt.Errorf("%s: key %d: %w", path, i, err)
				}
				if kvi.Kind != "storable" {
					return fmt.Errorf("%s: key %d references a %s slab", path, i, kvi.Kind)
				}
				w.Stats.LargeValues++
			}
			n, ok := keyNodeFromValue(kv)
			if !ok {
				return fmt.Errorf("%s: key %d has unknown type %T", path, i, kv)
			}
			kn = n
			ks := keyString(kn)
			if seen[ks] {
				return fmt.Errorf("%s: key %s stored twice", path, kn)
			}
			seen[ks] = true
			if builder != nil {
				d, err := builder.Digest(w.cb.HashInput, kv)
				if err != nil {
					return fmt.Errorf("%s: digesting key %s: %v", path, kn, err)
				}
				for lvl, want := range p.digs {
					got, err := d.Digest(uint(lvl))
					if err != nil {
						return fmt.Errorf("%s: key %s digest level %d: %v", path, kn, lvl, err)
					}
					if got != want {
						return fmt.Errorf("%s: key %s is filed under digest %d at level %d but hashes to %d", path, kn, want, lvl, got)
					}
				}
			}
		}
		var mv *Node
		if model != nil {
			if kn == nil {
				return fmt.Errorf("%s: cannot compare keys without a storage", path)
			}
			e, ok := model.M[keyString(kn)]
			if !ok {
				return fmt.Errorf("%s: stored key %s is not in the model", path, kn)
			}
			mv = e.Val
		}
		limit := atree.VerifMaxInlineMapValueSize(p.key.ByteSize())
		if err := w.walkElement(p.value, mv, limit, fmt.Sprintf("%s{%v}", path, p.key)); err != nil {
			return err
		}
	}
	return nil
}

func unwrapKeyRef(s atree.Storable) (atree.SlabID, bool) {
	inner, _ := unwrapSomeStorable(s)
	if x, ok := inner.(atree.SlabIDStorable); ok {
		return atree.SlabID(x), true
	}
	return atree.SlabID{}, false
}

func (w *Walker) walkMapSlab(vi *atree.VerifSlab, isRoot bool, pairs *[]kvPair, leaves *[]mapLeaf, path string, depth int) (int, error) {
	if vi.ID.Address() != w.addr {
		return 0, fmt.Errorf("%s: slab %s is owned by a different address than its root (%x)", path, vi.ID, w.addr)
	}
	if !isRoot && vi.HasExtraData {
		return 0, fmt.Errorf("%s: non-root slab %s carries extra data", path, vi.ID)
	}
	switch vi.Kind {
	case "map-data":
		w.Stats.DataSlabs++
		if vi.AnySize || vi.CollisionGroup {
			return 0, fmt.Errorf("%s: tree data slab %s is flagged as a collision group / unbounded slab", path, vi.ID)
		}
		if err := w.checkBand(vi, isRoot, path); err != nil {
			return 0, err
		}
		prefix := uint32(szMapDataPrefix)
		if vi.Inlined {
			prefix = szMapInlinedDataPrefix
		} else if isRoot {
			prefix = szMapRootDataPrefix
		}
		el := vi.MapElements
		if el == nil {
			return 0, fmt.Errorf("%s: data slab %s has no elements", path, vi.ID)
		}
		if vi.Size != prefix+el.Size {
			return 0, fmt.Errorf("%s: data slab %s header size %d != prefix %d + elements %d", path, vi.ID, vi.Size, prefix, el.Size)
		}
		if vi.Inlined && !isRoot {
			return 0, fmt.Errorf("%s: inlined flag on non-root slab %s", path, vi.ID)
		}
		if isRoot && vi.Next != atree.SlabIDUndefined {
			return 0, fmt.Errorf("%s: root data slab %s has a sibling link", path, vi.ID)
		}
		if !el.Hkeyed || el.Level != 0 {
			return 0, fmt.Errorf("%s: tree data slab %s holds elements of level %d (hkeyed=%v)", path, vi.ID, el.Level, el.Hkeyed)
		}
		first := atree.Digest(0)
		if len(el.Hkeys) > 0 {
			first = el.Hkeys[0]
		}
		if vi.FirstKey != first {
			return 0, fmt.Errorf("%s: data slab %s header first digest %d != first stored digest %d", path, vi.ID, vi.FirstKey, first)
		}
		if !isRoot && len(el.Elems) == 0 {
			return 0, fmt.Errorf("%s: non-root data slab %s is empty", path, vi.ID)
		}
		if err := w.walkElements(el, nil, pairs, path); err != nil {
			return 0, err
		}
		*leaves = append(*leaves, mapLeaf{vi.ID, vi.Next, vi.FirstKey})
		return depth, nil

	case "map-meta":
		w.Stats.MetaSlabs++
		if err := w.checkBand(vi, isRoot, path); err != nil {
			return 0, err
		}
		n := len(vi.Children)
		if n > w.Stats.MaxChildren {
			w.Stats.MaxChildren = n
		}
		if isRoot && n < 2 {
			return 0, fmt.Errorf("%s: root index slab %s has %d children (<2)", path, vi.ID, n)
		}
		if n == 0 {
			return 0, fmt.Errorf("%s: index slab %s has no children", path, vi.ID)
		}
		if want := uint32(szMapMetaPrefix + n*szMapChildHeader); vi.Size != want {
			return 0, fmt.Errorf("%s: index slab %s size %d != %d", path, vi.ID, vi.Size, want)
		}
		if vi.FirstKey != vi.Children[0].FirstKey {
			return 0, fmt.Errorf("%s: index slab %s first digest %d != first child's %d", path, vi.ID, vi.FirstKey, vi.Children[0].FirstKey)
		}
		maxDepth := depth
		for i, ch := range vi.Children {
			if i > 0 && !(vi.Children[i-1].FirstKey < ch.FirstKey) {
				return 0, fmt.Errorf("%s: index slab %s children first digests not strictly ascending at %d", path, vi.ID, i)
			}
			cvi, err := w.info(ch.ID)
			if err != nil {
				return 0, fmt.Errorf("%s: child %d of %s: %w", path, i, vi.ID, err)
			}
			if cvi.Kind != "map-data" && cvi.Kind != "map-meta" {
				return 0, fmt.Errorf("%s: child %s of map index slab is %s", path, ch.ID, cvi.Kind)
			}
			if cvi.Size != ch.Size || cvi.FirstKey != ch.FirstKey {
				return 0, fmt.Errorf("%s: index slab %s header for child %s says (size %d, first %d), child says (size %d, first %d)",
					path, vi.ID, ch.ID, ch.Size, ch.FirstKey, cvi.Size, cvi.FirstKey)
			}
			if cvi.Inlined {
				return 0, fmt.Errorf("%s: child slab %s is flagged inlined", path, ch.ID)
			}
			d, err := w.walkMapSlab(cvi, false, pairs, leaves, path, depth+1)
			if err != nil {
				return 0, err
			}
			if d > maxDepth {
				maxDepth = d
			}
		}
		return maxDepth, nil
	}
	return 0, fmt.Errorf("%s: slab %s of kind %s inside a map tree", path, vi.ID, vi.Kind)
}

// walkElements checks one element list (tree level 0 or inside a collision group) and appends its pairs.
func (w *Walker) walkElements(el *atree.VerifElements, prefix []atree.Digest, pairs *[]kvPair, path string) error {
	if int(el.Level) != len(prefix) {
		return fmt.Errorf("%s: element list at nesting %d reports level %d", path, len(prefix), el.Level)
	}
	if el.Hkeyed {
		if len(el.Hkeys) != len(el.Elems) {
			return fmt.Errorf("%s: %d digests for %d elements", path, len(el.Hkeys), len(el.Elems))
		}
		sum := uint32(szHkeyElementsPrefix)
		for i, e := range el.Elems {
			if i > 0 && !(el.Hkeys[i-1] < el.Hkeys[i]) {
				return fmt.Errorf("%s: digests at level %d not sorted-unique at position %d (%d, %d)", path, el.Level, i, el.Hkeys[i-1], el.Hkeys[i])
			}
			sum += szDigest + e.Size
			if el.Level == 0 && e.Size > w.th.MaxInlineMapElementSize {
				return fmt.Errorf("%s: element of %d bytes under digest %d exceeds the per-element limit %d", path, e.Size, el.Hkeys[i], w.th.MaxInlineMapElementSize)
			}
			digs := append(append([]atree.Digest(nil), prefix...), el.Hkeys[i])
			if err := w.walkMapElement(e, digs, pairs, path); err != nil {
				return err
			}
		}
		if sum != el.Size {
			return fmt.Errorf("%s: element list (level %d) size %d != computed %d", path, el.Level, el.Size, sum)
		}
		return nil
	}
	// list of plain elements (all digest levels exhausted)
	w.Stats.ListGroups++
	if len(el.Elems) > w.Stats.MaxListLen {
		w.Stats.MaxListLen = len(el.Elems)
	}
	sum := uint32(szSingleElementsPrefix)
	for _, e := range el.Elems {
		if e.Kind != "single" {
			return fmt.Errorf("%s: %s inside a last-level list", path, e.Kind)
		}
		sum += e.Size
		if err := w.walkMapElement(e, prefix, pairs, path); err != nil {
			return err
		}
	}
	if sum != el.Size {
		return fmt.Errorf("%s: last-level list size %d != computed %d", path, el.Size, sum)
	}
	return nil
}

func (w *Walker) walkMapElement(e atree.VerifElement, digs []atree.Digest, pairs *[]kvPair, path string) error {
	switch e.Kind {
	case "single":
		if want := szSingleElementPrefix + e.Key.ByteSize() + e.Value.ByteSize(); e.Size != want {
			return fmt.Errorf("%s: element size %d != 1 + key %d + value %d", path, e.Size, e.Key.ByteSize(), e.Value.ByteSize())
		}
		*pairs = append(*pairs, kvPair{key: e.Key, value: e.Value, digs: digs})
		return nil

	case "inline-group":
		w.Stats.InlineGroups++
		if e.Group == nil {
			return fmt.Errorf("%s: inline group without elements", path)
		}
		if e.Size != szInlineGroupPrefix+e.Group.Size {
			return fmt.Errorf("%s: inline group size %d != 2 + %d", path, e.Size, e.Group.Size)
		}
		if len(e.Group.Elems) == 0 {
			return fmt.Errorf("%s: empty inline collision group", path)
		}
		if len(e.Group.Elems) == 1 && e.Group.Elems[0].Kind == "single" {
			// not demanded by any property (only that the structure stays valid across collapses): counted, not judged
			w.Stats.UncollapsedGroups++
		}
		return w.walkElements(e.Group, digs, pairs, path)

	case "external-group":
		w.Stats.ExternalGroups++
		if e.Size != szExternalGroupPrefix+szSlabIDStorable {
			return fmt.Errorf("%s: external group element size %d != %d", path, e.Size, szExternalGroupPrefix+szSlabIDStorable)
		}
		if len(digs) != 1 {
			return fmt.Errorf("%s: external collision group below the first level", path)
		}
		vi, err := w.info(e.ExternalID)
		if err != nil {
			return fmt.Errorf("%s: external collision group: %w", path, err)
		}
		if e.ExternalID.Address() != w.addr {
			return fmt.Errorf("%s: external collision slab %s has a different owner", path, e.ExternalID)
		}
		if vi.Kind != "map-data" || !vi.AnySize || !vi.CollisionGroup || vi.HasExtraData || vi.Inlined {
			return fmt.Errorf("%s: external collision slab %s has kind %s anySize=%v group=%v extra=%v inlined=%v",
				path, e.ExternalID, vi.Kind, vi.AnySize, vi.CollisionGroup, vi.HasExtraData, vi.Inlined)
		}
		if vi.Next != atree.SlabIDUndefined {
			return fmt.Errorf("%s: external collision slab %s has a sibling link", path, e.ExternalID)
		}
		g := vi.MapElements
		if g == nil || len(g.Elems) == 0 {
			return fmt.Errorf("%s: external collision slab %s is empty", path, e.ExternalID)
		}
		if vi.Size != szMapDataPrefix+g.Size {
			return fmt.Errorf("%s: external collision slab %s size %d != %d + %d", path, e.ExternalID, vi.Size, szMapDataPrefix, g.Size)
		}
		if g.Hkeyed {
			if vi.FirstKey != g.Hkeys[0] {
				return fmt.Errorf("%s: external collision slab %s first digest %d != %d", path, e.ExternalID, vi.FirstKey, g.Hkeys[0])
			}
		}
		if len(g.Elems) == 1 && g.Elems[0].Kind == "single" {
			w.Stats.UncollapsedGroups++
		}
		return w.walkElements(g, digs, pairs, path)
	}
	return fmt.Errorf("%s: unknown element kind %q", path, e.Kind)
}

var _ = tu.CompareValue
