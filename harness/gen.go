package main

import (
	"fmt"
	"strings"

	"github.com/onflow/atree"
)

// ValProfile controls the value universe of a case.
type ValProfile struct {
	MaxDepth      int    // nesting depth of generated containers (0: scalars only)
	PContainer    int    // percent of generated values that are containers (when depth allows)
	PSome         int    // percent of generated values that get 1-3 wrapper levels
	Sizes         string // "small", "mixed", "hostile"
	Composite     bool   // allow composite type infos (compact maps)
	MaxChildElems int    // initial element count of generated containers
	KeySpace      int    // size of the integer key space for maps
	BigKeys       bool   // allow keys around / above the key inline limit
	BlindDispose  bool   // dispose of unloaded large values without reading them (World.blindDisposal)
	LongTypes     bool   // every fifth type info is a byte string of 200-440 bytes
	ManyTypes     bool   // type infos drawn from hundreds of ids instead of 7
	CompositeFlip bool   // SetType may turn a simple-typed map into a composite-typed one and back (compact form <-> plain form)
}

func DefaultValProfile() ValProfile {
	return ValProfile{MaxDepth: 2, PContainer: 12, PSome: 10, Sizes: "mixed", Composite: false, MaxChildElems: 6, KeySpace: 400, BigKeys: true}
}

var u64Boundaries = []uint64{0, 1, 23, 24, 255, 256, 65535, 65536, 1<<32 - 1, 1 << 32, 1<<64 - 1}

// strOfByteSize returns a string whose CBOR text-string encoding has exactly size bytes (size >= 1).
func (w *World) strOfByteSize(size int) string {
	if size < 1 {
		size = 1
	}
	var n int
	switch {
	case size <= 24: // head 1, len <= 23
		n = size - 1
	case size == 25: // len 24 needs head 2 => 26 bytes; 25 is not representable, use 24 (len 23)
		n = 23
	case size <= 257: // head 2, len 24..255
		n = size - 2
	case size <= 259: // len 256 needs head 3 => 259
		n = 255
		if size == 259 {
			n = 256
		}
	case size <= 65538:
		n = size - 3
	default:
		n = size - 5
	}
	if n <= 0 {
		return ""
	}
	// content: a few pseudo-random bytes followed by filler, so that equal-length strings differ
	var sb strings.Builder
	sb.Grow(n)
	for sb.Len() < n && sb.Len() < 6 {
		sb.WriteByte(byte('a' + w.rng.Intn(26)))
	}
	for sb.Len() < n {
		sb.WriteByte('x')
	}
	return sb.String()
}

// genScalar generates a scalar model node. limit is the inline limit at the place it will be stored.
func (w *World) genScalar(limit uint32) *Node {
	r := w.rng
	mode := w.prof.Sizes
	roll := r.Intn(100)
	intPct := 55
	if mode == "hostile" {
		intPct = 25
	}
	if mode == "medium" {
		intPct = 8
	}
	if roll < intPct {
		var v uint64
		if r.Intn(3) == 0 {
			v = u64Boundaries[r.Intn(len(u64Boundaries))]
		} else {
			v = uint64(r.Intn(100000))
		}
		switch r.Intn(4) {
		case 0:
			return &Node{Kind: KU8, U: v & 0xff}
		case 1:
			return &Node{Kind: KU16, U: v & 0xffff}
		case 2:
			return &Node{Kind: KU32, U: v & 0xffffffff}
		default:
			return &Node{Kind: KU64, U: v}
		}
	}
	// strings
	th := atree.VerifThresholds()
	var size int
	cls := r.Intn(100)
	switch mode {
	case "small":
		size = 1 + r.Intn(28)
	case "medium": // a leaf holds 2-4 elements: many leaves (deep trees) from few elements
		if cls < 75 {
			size = int(limit)/2 - 3 + r.Intn(7)
		} else if cls < 90 {
			size = int(limit)/3 + r.Intn(5)
		} else {
			size = 1 + r.Intn(28)
		}
	case "mixed":
		switch {
		case cls < 55:
			size = 1 + r.Intn(30)
		case cls < 70:
			size = int(limit) - 2 + r.Intn(5) // limit-2 .. limit+2
		case cls < 80:
			size = int(limit)/2 - 3 + r.Intn(7)
		case cls < 88:
			size = int(limit)/4 - 3 + r.Intn(7)
		case cls < 93:
			size = 253 + r.Intn(8) // 255/256 length boundary
		case cls < 97:
			size = int(th.Target)/2 - 3 + r.Intn(7)
		default:
			size = int(th.Target) + 10 + r.Intn(200) // larger than a slab => external
		}
	default: // hostile
		switch {
		case cls < 15:
			size = 1 + r.Intn(4)
		case cls < 45:
			size = int(limit) - 2 + r.Intn(5)
		case cls < 65:
			size = int(limit)/2 - 3 + r.Intn(7)
		case cls < 75:
			size = int(limit)/4 - 3 + r.Intn(7)
		case cls < 85:
			size = int(th.Target)/2 - 20 + r.Intn(7)
		case cls < 92:
			size = 20 + r.Intn(10)
		default:
			size = int(th.Target) + 10 + r.Intn(100)
		}
	}
	return &Node{Kind: KStr, S: w.strOfByteSize(size)}
}

// genValue generates a value (scalar, wrapped, or a freshly created nested container).
// The returned node's containers carry live handles; they are attached by the storing operation.
func (w *World) genValue(depth int, limit uint32, addr atree.Address) (*Node, error) {
	r := w.rng
	var n *Node
	if depth > 0 && r.Intn(100) < w.prof.PContainer {
		c, err := w.genContainer(depth-1, addr)
		if err != nil {
			return nil, err
		}
		n = c
	} else {
		l := limit
		n = w.genScalar(l)
	}
	if r.Intn(100) < w.prof.PSome {
		levels := 1 + r.Intn(3)
		for i := 0; i < levels; i++ {
			n = &Node{Kind: KSome, Inner: n}
		}
	}
	return n, nil
}

func (w *World) genContainer(depth int, addr atree.Address) (*Node, error) {
	r := w.rng
	th := atree.VerifThresholds()
	cnt := 0
	if w.prof.MaxChildElems > 0 {
		cnt = r.Intn(w.prof.MaxChildElems + 1)
	}
	saveTrace := w.traceOn
	defer func() { w.traceOn = saveTrace }()
	if r.Intn(2) == 0 {
		n, err := w.NewRootArray(addr, w.newTI(false))
		if err != nil {
			return nil, err
		}
		w.logOp("  (new child %s with %d elements)", n, cnt)
		w.traceOn = false
		for i := 0; i < cnt; i++ {
			v, err := w.genValue(depth, th.MaxInlineArrayElementSize/4, addr)
			if err != nil {
				return nil, err
			}
			if err := w.OpArrayAppend(n, v); err != nil {
				return nil, err
			}
		}
		return n, nil
	}
	n, err := w.NewRootMap(addr, w.newTI(w.prof.Composite), nil)
	if err != nil {
		return nil, err
	}
	if n.TI.Composite && cnt > 3 && r.Intn(2) == 0 {
		// most composite values have 2-3 fields, so that several same-typed ones with equal field sets meet in one parent
		// slab and share the compact form's key / digest lists
		cnt = 2 + r.Intn(2)
	}
	if n.TI.Composite && r.Intn(3) == 0 {
		// composite values with many fields (the shared key / digest lists of the compact form grow past the sizes
		// that fit the encoder's scratch space)
		cnt = 7 + r.Intn(28)
		w.stats.Extra["composite-maps-with-7-to-34-fields"]++
	}
	w.logOp("  (new child %s with %d elements)", n, cnt)
	w.traceOn = false
	for i := 0; i < cnt; i++ {
		var k *Node
		if n.TI.Composite {
			// field-like string keys so that same-typed composite maps share key sets
			k = &Node{Kind: KStr, S: fmt.Sprintf("f%d", i)}
		} else {
			k = w.genKey(n, 30)
		}
		v, err := w.genValue(depth, th.MaxInlineMapElementSize/4, addr)
		if err != nil {
			return nil, err
		}
		if err := w.OpMapSet(n, k, v); err != nil {
			return nil, err
		}
	}
	return n, nil
}

// genKey generates a key for map n: mostly from a bounded integer space (so that updates,
// removals and lookups hit existing keys), sometimes strings of interesting sizes, sometimes wrapped.
func (w *World) genKey(n *Node, space int) *Node {
	r := w.rng
	if space <= 0 {
		space = 100
	}
	roll := r.Intn(100)
	switch {
	case roll < 50:
		return &Node{Kind: KU64, U: uint64(r.Intn(space))}
	case roll < 58:
		return &Node{Kind: KU8, U: uint64(r.Intn(space)) & 0xff}
	case roll < 64:
		return &Node{Kind: KU16, U: uint64(r.Intn(space)) & 0xffff}
	case roll < 70:
		return &Node{Kind: KU32, U: uint64(r.Intn(space))}
	case roll < 88:
		return &Node{Kind: KStr, S: fmt.Sprintf("k%d", r.Intn(space))}
	case roll < 94:
		if w.prof.BigKeys {
			th := atree.VerifThresholds()
			// strings below / at / above the key inline limit; a small id keeps them distinct and re-findable
			id := r.Intn(8)
			size := int(th.MaxInlineMapKeySize) - 2 + id%5
			s := fmt.Sprintf("K%d_", id)
			body := w.fillerOfByteSize(size, len(s))
			return &Node{Kind: KStr, S: s + body}
		}
		return &Node{Kind: KStr, S: fmt.Sprintf("k%d", r.Intn(space))}
	default:
		return &Node{Kind: KSome, Inner: &Node{Kind: KU64, U: uint64(r.Intn(space))}}
	}
}

// fillerOfByteSize returns filler such that prefixLen+len(filler) gives a CBOR text string of size bytes.
func (w *World) fillerOfByteSize(size int, prefixLen int) string {
	var n int
	switch {
	case size <= 24:
		n = size - 1
	case size <= 257:
		n = size - 2
	default:
		n = size - 3
	}
	n -= prefixLen
	if n < 0 {
		n = 0
	}
	return strings.Repeat("y", n)
}

// existingKey picks a key that is present in map n (nil when empty).
func (w *World) existingKey(n *Node) *Node {
	if len(n.M) == 0 {
		return nil
	}
	// Go map iteration order must not influence the run: choose by sorted order with the case PRNG.
	if len(n.M) > 256 {
		// large maps (deep-tree cases): sorting after every insertion / removal would dominate the run; pick the entry
		// whose key hash is closest (xor metric) to a PRNG target - independent of the iteration order, O(n)
		t := w.rng.Uint64()
		var best *Entry
		var bd uint64
		for ks, e := range n.M {
			if e.h == 0 {
				e.h = hashBytes([]byte(ks)) | 1
			}
			if d := e.h ^ t; best == nil || d < bd {
				best, bd = e, d
			}
		}
		return best.Key
	}
	es := n.sortedEntries()
	return es[w.rng.Intn(len(es))].Key
}

// pickContainer walks down from root and returns a (possibly nested) container node.
func (w *World) pickContainer(root *Node, descendPct int) *Node {
	n := root
	for depth := 0; depth < 6; depth++ {
		if w.rng.Intn(100) >= descendPct {
			return n
		}
		var kids []*Node
		switch n.Kind {
		case KArr:
			for tries := 0; tries < 12 && len(n.Elems) > 0; tries++ {
				e := n.Elems[w.rng.Intn(len(n.Elems))]
				if c := e.container(); c != nil {
					kids = append(kids, c)
					break
				}
			}
		case KMap:
			if len(n.M) > 0 {
				es := n.sortedEntries()
				for tries := 0; tries < 12; tries++ {
					e := es[w.rng.Intn(len(es))]
					if c := e.Val.container(); c != nil {
						kids = append(kids, c)
						break
					}
				}
			}
		}
		if len(kids) == 0 {
			return n
		}
		n = kids[0]
	}
	return n
}

// mapValueLimit returns the exact inline limit of a value stored under the given key (keys above the key limit are
// stored as a reference).
func mapValueLimit(key *Node) uint32 {
	th := atree.VerifThresholds()
	ks := uint32(szSlabIDStorable)
	if st, ok := scalarValue(key).(atree.Storable); ok && st.ByteSize() <= th.MaxInlineMapKeySize {
		ks = st.ByteSize()
	} else if key.Kind == KSome {
		ks = 8
	}
	return atree.VerifMaxInlineMapValueSize(ks)
}

// limitFor returns the inline limit that applies to values stored directly in container n.
func limitFor(n *Node) uint32 {
	th := atree.VerifThresholds()
	if n.Kind == KArr {
		return th.MaxInlineArrayElementSize
	}
	return th.MaxInlineMapElementSize - 12
}

// Phase weights for the generic history driver.
type Phase struct {
	Name   string
	Ops    int
	Insert int // weights
	Set    int
	Remove int
	Read   int
	Meta   int // settype, refresh
	Pop    int
}

type HistCfg struct {
	Phases      []Phase
	DescendPct  int  // probability (percent) to operate on a nested container instead of the root
	PopOnChild  bool // allow bulk pop through a handle on an attached child
	IterHandles bool // meta steps may re-acquire the handles of a container's children by mutable iteration
	InvalidPct  int  // percent of steps that are deliberately invalid requests
	CommitEvery int  // 0 = never (the caller commits)
	Relaxed     bool
}

func (w *World) pickIndex(n *Node, forInsert bool, bounds []uint64) uint64 {
	l := uint64(len(n.Elems))
	r := w.rng
	max := l
	if !forInsert {
		if l == 0 {
			return 0
		}
		max = l - 1
	}
	switch r.Intn(10) {
	case 0:
		return 0
	case 1:
		return max
	case 2, 3:
		if len(bounds) > 0 && n.Parent == nil {
			b := bounds[r.Intn(len(bounds))]
			d := uint64(r.Intn(3))
			var v uint64
			if r.Intn(2) == 0 && b >= d {
				v = b - d
			} else {
				v = b + d
			}
			if v > max {
				v = max
			}
			return v
		}
	}
	if max == 0 {
		return 0
	}
	return uint64(r.Int63n(int64(max) + 1))
}

// invalidIndex returns an out-of-range index for an array of l elements: just past the end, or far beyond it - in
// particular values whose low 32 (16, 8) bits alone would be a valid position, the extremes of the 64-bit range, and
// multiples of 2^32 (an index that is narrowed anywhere on its way to a leaf must still be rejected).
func (w *World) invalidIndex(l uint64, forInsert bool) uint64 {
	r := w.rng
	lo := uint64(r.Intn(3))
	if forInsert {
		lo++
	}
	var low uint64
	if l > 0 {
		low = uint64(r.Int63n(int64(l)))
	}
	// the low bits of a far index also sit exactly on the boundaries of the valid range: first, last, and the count itself
	// (the append position of an insertion) - an index truncated to 32 or 16 bits anywhere on the way down looks valid there
	switch r.Intn(4) {
	case 1:
		low = 0
	case 2:
		if l > 0 {
			low = l - 1
		}
	case 3:
		low = l
	}
	switch r.Intn(12) {
	case 0:
		return 1<<32 + low
	case 1:
		return uint64(1+r.Intn(1<<20))<<32 + low
	case 2:
		return 1<<63 + low
	case 3:
		return ^uint64(0)
	case 4:
		return ^uint64(0) - low
	case 5:
		return 1<<32 + l + lo
	case 6:
		if x := 1<<16 + low; x >= l+lo {
			return x
		}
	case 7:
		return 1 << 32
	}
	return l + lo
}

// Step performs one generated operation on a container reachable from root.
func (w *World) Step(root *Node, ph Phase, cfg *HistCfg) error {
	r := w.rng
	n := w.pickContainer(root, cfg.DescendPct)
	total := ph.Insert + ph.Set + ph.Remove + ph.Read + ph.Meta + ph.Pop
	roll := r.Intn(total)
	depthLeft := w.prof.MaxDepth
	for p := n; p != nil && p.Parent != nil; p = p.Parent {
		depthLeft--
	}
	if depthLeft < 0 {
		depthLeft = 0
	}
	invalid := cfg.InvalidPct > 0 && r.Intn(100) < cfg.InvalidPct

	if n.Kind == KArr {
		l := uint64(len(n.Elems))
		switch {
		case roll < ph.Insert:
			v, err := w.genValue(depthLeft, limitFor(n), n.Addr)
			if err != nil {
				return err
			}
			if invalid {
				err := w.OpArrayInsert(n, w.invalidIndex(l, true), v)
				if err != nil {
					return err
				}
				return w.discardUnused(v)
			}
			if r.Intn(3) == 0 {
				return w.OpArrayAppend(n, v)
			}
			return w.OpArrayInsert(n, w.pickIndex(n, true, w.bounds), v)
		case roll < ph.Insert+ph.Set:
			if l == 0 && !invalid {
				return nil
			}
			v, err := w.genValue(depthLeft, limitFor(n), n.Addr)
			if err != nil {
				return err
			}
			if invalid {
				if err := w.OpArraySet(n, w.invalidIndex(l, false), v); err != nil {
					return err
				}
				return w.discardUnused(v)
			}
			return w.OpArraySet(n, w.pickIndex(n, false, w.bounds), v)
		case roll < ph.Insert+ph.Set+ph.Remove:
			if invalid {
				return w.OpArrayRemove(n, w.invalidIndex(l, false))
			}
			if l == 0 {
				return nil
			}
			return w.OpArrayRemove(n, w.pickIndex(n, false, w.bounds))
		case roll < ph.Insert+ph.Set+ph.Remove+ph.Read:
			if invalid {
				return w.OpArrayGet(n, w.invalidIndex(l, false))
			}
			if l == 0 {
				return nil
			}
			return w.OpArrayGet(n, w.pickIndex(n, false, w.bounds))
		case roll < ph.Insert+ph.Set+ph.Remove+ph.Read+ph.Meta:
			if cfg.IterHandles && r.Intn(3) == 0 {
				return w.RefreshChildrenByIteration(n)
			}
			if r.Intn(2) == 0 {
				return w.OpArraySetType(n, w.newTI(false))
			}
			if n.Parent != nil {
				return w.Refresh(n)
			}
			return nil
		default:
			if n.Parent != nil && !cfg.PopOnChild {
				return nil
			}
			if n.Parent == nil && len(n.Elems) > 30 && r.Intn(4) != 0 {
				return nil // bulk pops of nested containers are the frequent case; a large root is rarely wiped
			}
			return w.OpArrayPop(n)
		}
	}

	// map
	switch {
	case roll < ph.Insert:
		k := w.genKey(n, w.prof.KeySpace)
		v, err := w.genValue(depthLeft, mapValueLimit(k), n.Addr)
		if err != nil {
			return err
		}
		return w.OpMapSet(n, k, v)
	case roll < ph.Insert+ph.Set:
		k := w.existingKey(n)
		if k == nil {
			return nil
		}
		v, err := w.genValue(depthLeft, mapValueLimit(k), n.Addr)
		if err != nil {
			return err
		}
		return w.OpMapSet(n, k, v)
	case roll < ph.Insert+ph.Set+ph.Remove:
		if invalid || r.Intn(8) == 0 {
			return w.OpMapRemove(n, w.genKey(n, w.prof.KeySpace*2))
		}
		k := w.existingKey(n)
		if k == nil {
			return nil
		}
		return w.OpMapRemove(n, k)
	case roll < ph.Insert+ph.Set+ph.Remove+ph.Read:
		var k *Node
		if invalid || r.Intn(3) == 0 {
			k = w.genKey(n, w.prof.KeySpace*2)
		} else {
			k = w.existingKey(n)
			if k == nil {
				k = w.genKey(n, w.prof.KeySpace)
			}
		}
		if r.Intn(3) == 0 {
			return w.OpMapHas(n, k)
		}
		return w.OpMapGet(n, k)
	case roll < ph.Insert+ph.Set+ph.Remove+ph.Read+ph.Meta:
		if cfg.IterHandles && r.Intn(3) == 0 {
			return w.RefreshChildrenByIteration(n)
		}
		if r.Intn(2) == 0 {
			// keep compositeness stable so that the composite bucket of a case is fixed at creation
			ti := w.newTI(false)
			ti.Composite = n.TI.Composite
			if w.prof.CompositeFlip && n.Parent != nil && r.Intn(3) == 0 {
				ti = w.newTI(true)
				if ti.Composite != n.TI.Composite {
					w.stats.Extra["settype-composite-flips"]++
				}
			}
			return w.OpMapSetType(n, ti)
		}
		if n.Parent != nil {
			return w.Refresh(n)
		}
		return nil
	default:
		if n.Parent != nil && !cfg.PopOnChild {
			return nil
		}
		if n.Parent == nil && len(n.M) > 30 && r.Intn(4) != 0 {
			return nil
		}
		return w.OpMapPop(n)
	}
}

// discardUnused disposes of a generated value that was never stored (rejected request).
func (w *World) discardUnused(v *Node) error {
	c := v.container()
	if c == nil {
		return nil
	}
	// the container was created as a standalone root; drain and remove it
	var s atree.Storable
	if c.Kind == KArr {
		s = atree.SlabIDStorable(c.Arr.SlabID())
	} else {
		s = atree.SlabIDStorable(c.Map.SlabID())
	}
	dropHandles(c, true)
	return w.dispose(s)
}

var (
	PhaseGrow   = Phase{Name: "grow", Insert: 70, Set: 10, Remove: 5, Read: 10, Meta: 3, Pop: 0}
	PhaseChurn  = Phase{Name: "churn", Insert: 30, Set: 25, Remove: 28, Read: 12, Meta: 4, Pop: 1}
	PhaseShrink = Phase{Name: "shrink", Insert: 8, Set: 12, Remove: 65, Read: 10, Meta: 4, Pop: 1}
	PhaseDrain  = Phase{Name: "drain", Insert: 0, Set: 2, Remove: 90, Read: 6, Meta: 1, Pop: 1}
)

func scalePhases(total int, shape []Phase, fr []int) []Phase {
	sum := 0
	for _, f := range fr {
		sum += f
	}
	out := make([]Phase, len(shape))
	for i, p := range shape {
		p.Ops = total * fr[i] / sum
		out[i] = p
	}
	return out
}

// StandardPhases: grow -> churn -> shrink -> drain -> regrow -> churn.
func StandardPhases(total int) []Phase {
	return scalePhases(total,
		[]Phase{PhaseGrow, PhaseChurn, PhaseShrink, PhaseDrain, PhaseGrow, PhaseChurn},
		[]int{30, 20, 15, 12, 13, 10})
}

// wideSlab replaces the small slab size of every 11th case by a large one (the flow-go default is 1024; a library
// user may configure far larger registers), so that every history-based check also sees trees whose element limits,
// size fields and child counts are an order of magnitude larger.
func wideSlab(cs int, base uint32) uint32 {
	if cs%11 != 10 {
		return base
	}
	return []uint32{4096, 32768, 2048, 16384, 8192}[cs/11%5]
}
