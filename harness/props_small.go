package main

import (
	"fmt"

	"github.com/onflow/atree"
)

// Small-scope exhaustive exploration: EVERY operation sequence of a fixed length over a small alphabet, from several
// start states, executed on the real library at slab size 256 (where two maximal elements fill a slab, so splits, borrows,
// merges, root promotions, inline <-> external transitions and collision-group transitions all happen within a handful
// of operations), with the reference-model, structural, reachability and byte-level monitors after every operation.
// This complements the PRNG histories: inside its scope nothing is sampled.

type ssOp struct {
	name string
	run  func(w *World, root *Node) error
}

func ssStr(w *World, size int, tag byte) *Node {
	s := []byte(w.strOfByteSize(size))
	for i := range s {
		s[i] = 'a' + tag%26
	}
	return &Node{Kind: KStr, S: string(s)}
}

func ssArrayOps(w *World) []ssOp {
	th := atree.VerifThresholds()
	big := int(th.MaxInlineArrayElementSize)
	vals := []func() *Node{
		func() *Node { return &Node{Kind: KU8, U: 7} },
		func() *Node { return ssStr(w, big/3, 1) },
		func() *Node { return ssStr(w, big, 2) },
		func() *Node { return ssStr(w, big+1, 3) }, // one byte above the limit: externalised
	}
	names := []string{"tiny", "third", "max", "max+1"}
	var ops []ssOp
	for i, mk := range vals {
		mk, nm := mk, names[i]
		ops = append(ops, ssOp{"append " + nm, func(w *World, r *Node) error { return w.OpArrayAppend(r, mk()) }})
	}
	for _, i := range []int{0, 2} {
		mk, nm := vals[i], names[i]
		ops = append(ops, ssOp{"insert-front " + nm, func(w *World, r *Node) error { return w.OpArrayInsert(r, 0, mk()) }})
		ops = append(ops, ssOp{"insert-mid " + nm, func(w *World, r *Node) error { return w.OpArrayInsert(r, uint64(len(r.Elems)/2), mk()) }})
		ops = append(ops, ssOp{"set-mid " + nm, func(w *World, r *Node) error {
			if len(r.Elems) == 0 {
				return nil
			}
			return w.OpArraySet(r, uint64(len(r.Elems)/2), mk())
		}})
	}
	rm := func(name string, idx func(n int) int) ssOp {
		return ssOp{name, func(w *World, r *Node) error {
			if len(r.Elems) == 0 {
				return nil
			}
			return w.OpArrayRemove(r, uint64(idx(len(r.Elems))))
		}}
	}
	ops = append(ops, rm("remove-front", func(n int) int { return 0 }), rm("remove-mid", func(n int) int { return n / 2 }), rm("remove-back", func(n int) int { return n - 1 }))
	return ops
}

// ssKeys: 6 keys whose digests under the ss digester are arranged as: {0,1} collide on level 0 only, {2,3} collide on
// levels 0 and 1, {4} and {5} are alone (5 has the smallest digest, 4 the largest).
type ssBuilder struct{}

type ssDigester struct{ d [4]atree.Digest }

func (ssBuilder) SetSeed(uint64, uint64) {}
func (ssBuilder) Digest(hip atree.HashInputProvider, v atree.Value) (atree.Digester, error) {
	var scratch [32]byte
	msg, err := hip(v, scratch[:])
	if err != nil {
		return nil, err
	}
	k := uint64(msg[len(msg)-1]) // the keys are Uint64Value 0..5 (last byte of the hash input is the value)
	var d [4]atree.Digest
	switch k {
	case 0, 1:
		d = [4]atree.Digest{100, atree.Digest(10 + k), atree.Digest(k), atree.Digest(k)}
	case 2, 3:
		d = [4]atree.Digest{200, 20, atree.Digest(30 + k), atree.Digest(k)}
	case 4:
		d = [4]atree.Digest{900, 1, 1, 1}
	default:
		d = [4]atree.Digest{atree.Digest(10 + k), 2, 2, 2}
	}
	return &ssDigester{d}, nil
}
func (d *ssDigester) DigestPrefix(level uint) ([]atree.Digest, error) {
	return append([]atree.Digest(nil), d.d[:level]...), nil
}
func (d *ssDigester) Digest(level uint) (atree.Digest, error) {
	if level >= 4 {
		return 0, fmt.Errorf("verif: level out of range")
	}
	return d.d[level], nil
}
func (d *ssDigester) Reset()       {}
func (d *ssDigester) Levels() uint { return 4 }

func ssMapOps(w *World) []ssOp {
	th := atree.VerifThresholds()
	var ops []ssOp
	for k := 0; k < 6; k++ {
		k := k
		key := func() *Node { return &Node{Kind: KU64, U: uint64(k)} }
		vbig := int(atree.VerifMaxInlineMapValueSize(3))
		ops = append(ops,
			ssOp{fmt.Sprintf("set %d tiny", k), func(w *World, r *Node) error { return w.OpMapSet(r, key(), &Node{Kind: KU8, U: 1}) }},
			ssOp{fmt.Sprintf("set %d max", k), func(w *World, r *Node) error { return w.OpMapSet(r, key(), ssStr(w, vbig, byte(k))) }},
			ssOp{fmt.Sprintf("remove %d", k), func(w *World, r *Node) error {
				if _, ok := r.M[keyString(key())]; !ok {
					return nil
				}
				return w.OpMapRemove(r, key())
			}},
		)
	}
	_ = th
	return ops
}

// runSmallScope enumerates the sequences assigned to this case (sequence number mod parts == part).
func runSmallScope(c *CaseCtx, kind string, depth, part, parts int) *CaseResult {
	res := &CaseResult{Stats: newStats(), Obs: map[string]int{}}
	res.Config = map[string]any{"kind": "small-scope exhaustive " + kind, "depth": depth, "part": part, "parts": parts, "slab_size": 256}
	atree.VerifSetThreshold(256)
	defer atree.VerifSetThreshold(1024)
	starts := 3
	var nops int
	{
		w := NewWorld(1, addrOf(1, 0))
		if kind == "array" {
			nops = len(ssArrayOps(w))
		} else {
			nops = len(ssMapOps(w))
		}
	}
	total := 1
	for i := 0; i < depth; i++ {
		total *= nops
	}
	seqs := 0
	for start := 0; start < starts; start++ {
		for sn := part; sn < total; sn += parts {
			w := NewWorld(int64(sn), addrOf(2, 0))
			w.traceOn = true
			w.mon = MonCfg{}
			var root *Node
			var err error
			var ops []ssOp
			if kind == "array" {
				root, err = w.NewRootArray(w.addr, TI{ID: 1})
				ops = ssArrayOps(w)
			} else {
				w.nextNID++
				root = &Node{Kind: KMap, TI: TI{ID: 1}, Addr: w.addr, M: map[string]*Entry{}, nid: w.nextNID}
				var m *atree.OrderedMap
				m, err = atree.NewMap(w.st, w.addr, ssBuilder{}, root.TI)
				if err == nil {
					root.Map, root.VID = m, m.ValueID()
				}
				ops = ssMapOps(w)
			}
			fail := func(err error) *CaseResult {
				if v, ok := err.(*Violation); ok {
					res.fail(v)
				} else {
					res.fail(viol("harness", "%v", err))
				}
				res.Trace = w.trace
				res.Hash = traceHash(res.Config, w.trace)
				return res
			}
			if err != nil {
				return fail(err)
			}
			w.AddRoot(root)
			// start states
			prefix := []int{}
			switch {
			case kind == "array" && start == 1:
				prefix = []int{2, 2, 2, 2, 2} // five maximal elements: three leaves
			case kind == "array" && start == 2:
				prefix = []int{1, 1, 1, 1, 1, 1, 1, 0, 0} // seven thirds and two tiny
			case kind == "map" && start == 1:
				prefix = []int{1, 4, 7, 10, 13, 16} // all six keys with maximal values
			case kind == "map" && start == 2:
				prefix = []int{0, 3, 6, 9} // keys 0..3 tiny: two inline collision groups
			}
			check := func() error {
				if err := w.ssCheck(root, kind); err != nil {
					return err
				}
				return nil
			}
			for _, oi := range prefix {
				if err := ops[oi].run(w, root); err != nil {
					return fail(err)
				}
			}
			if err := check(); err != nil {
				return fail(err)
			}
			x := sn
			for d := 0; d < depth; d++ {
				oi := x % nops
				x /= nops
				if err := ops[oi].run(w, root); err != nil {
					return fail(err)
				}
				if err := check(); err != nil {
					return fail(err)
				}
			}
			// end of sequence: commit, cold rebuild, register reach
			if err := w.Commit(false, 1); err != nil {
				return fail(err)
			}
			regs := w.led.Snapshot()
			if err := w.ssCold(root, kind, regs); err != nil {
				return fail(err)
			}
			seqs++
			if w.stats.MaxRootSlabs > res.Stats.MaxRootSlabs {
				res.Stats.MaxRootSlabs = w.stats.MaxRootSlabs
			}
			res.Stats.SlabsCreated += w.stats.SlabsCreated
			res.Stats.SlabsRemoved += w.stats.SlabsRemoved
			res.Stats.Splits += w.stats.Splits
			res.Stats.Merges += w.stats.Merges
			res.Stats.ExtGroupsSeen += w.stats.ExtGroupsSeen
			res.Stats.InlineGroupsSeen += w.stats.InlineGroupsSeen
			res.Stats.LargeValuesSeen += w.stats.LargeValuesSeen
			if seqs == 1 {
				res.Trace = w.trace
			}
		}
	}
	res.Evals = seqs
	res.Obs["small-scope-sequences-"+kind] = seqs
	if part == 0 {
		res.Obs["small-scope-alphabet-"+kind] = nops
		res.Obs["small-scope-depth-"+kind] = depth
	}
	res.Hash = fnv64(fmt.Sprintf("ss|%s|%d|%d|%d", kind, depth, part, parts))
	res.NonTrivial = res.Stats.Splits > 0 && res.Stats.Merges > 0
	return res
}

// ssCheck: structural walk with model comparison, reachability, byte-level sizes of every slab, after every operation.
func (w *World) ssCheck(root *Node, kind string) error {
	wk := NewWalker(liveGetter(w.ps), w.ps, w.cb)
	wk.digOverride = nil
	if kind == "map" {
		wk.digOverride = ssBuilder{}
	}
	if err := wk.WalkRootID(rootID(root), root, nil); err != nil {
		return viol("tree", "%v", err)
	}
	w.stats.Walks++
	if wk.Stats.Slabs > w.stats.MaxRootSlabs {
		w.stats.MaxRootSlabs = wk.Stats.Slabs
	}
	w.stats.ExtGroupsSeen += wk.Stats.ExternalGroups
	w.stats.InlineGroupsSeen += wk.Stats.InlineGroups
	w.stats.LargeValuesSeen += wk.Stats.LargeValues
	if err := w.checkReachWarm(wk); err != nil {
		return err
	}
	var st sizeStats
	for id := range wk.Visited {
		if s := w.ps.RetrieveIfLoaded(id); s != nil {
			if err := CheckSlabBytes(s, &st); err != nil {
				return viol("bytes", "%v", err)
			}
		}
	}
	// access == traversal through the API on a fresh handle
	c := &cmpCtx{storage: w.st, cb: w.cb}
	var v atree.Value
	var err error
	if kind == "array" {
		v, err = atree.NewArrayWithRootID(w.st, rootID(root))
	} else {
		v, err = atree.NewMapWithRootID(w.st, rootID(root), ssBuilder{})
	}
	if err != nil {
		return viol("reopen", "%v", err)
	}
	if err := c.valueEqualsNode(v, root, root.String()); err != nil {
		return viol("deep", "%v", err)
	}
	return nil
}

func (w *World) ssCold(root *Node, kind string, regs map[atree.SlabID][]byte) error {
	ps := newStorage(NewLedgerFrom(regs, nil))
	c := &cmpCtx{storage: ps, cb: w.cb}
	var v atree.Value
	var err error
	if kind == "array" {
		v, err = atree.NewArrayWithRootID(ps, rootID(root))
	} else {
		v, err = atree.NewMapWithRootID(ps, rootID(root), ssBuilder{})
	}
	if err != nil {
		return viol("cold", "%v", err)
	}
	if err := c.valueEqualsNode(v, root, "cold:"+root.String()); err != nil {
		return viol("cold", "%v", err)
	}
	wk := NewWalker(registerGetter(regs), ps, w.cb)
	if kind == "map" {
		wk.digOverride = ssBuilder{}
	}
	if err := wk.WalkRootID(rootID(root), root, nil); err != nil {
		return viol("cold-tree", "%v", err)
	}
	for id := range regs {
		if wk.Visited[id] != 1 {
			return viol("reach-leak", "register %s reached %d times from the only root", id, wk.Visited[id])
		}
	}
	return nil
}

// ---------------------------------------------------------------------------------------------
// Small-scope exhaustive exploration of nested-handle interleavings (C10): a root array holding a child array A
// (which holds a grandchild array G) and a child map B, all handles obtained once at creation and never refreshed.
// Every sequence of `depth` operations over the alphabet below is executed at slab size 256, where a few medium
// elements push G, then A, across the inline limit and back.

func ssNestedOps(w *World, root, a, g, b *Node) []ssOp {
	med := func(tag byte) *Node { return ssStr(w, 36, tag) }
	firstScalar := func(n *Node) int {
		for i, e := range n.Elems {
			if e.container() == nil {
				return i
			}
		}
		return -1
	}
	attached := func(n *Node) bool { return n.Parent != nil }
	return []ssOp{
		{"G.append med", func(w *World, r *Node) error {
			if !attached(g) {
				return nil
			}
			return w.OpArrayAppend(g, med(1))
		}},
		{"G.remove first", func(w *World, r *Node) error {
			if !attached(g) || len(g.Elems) == 0 {
				return nil
			}
			return w.OpArrayRemove(g, 0)
		}},
		{"G.pop", func(w *World, r *Node) error {
			if !attached(g) {
				return nil
			}
			return w.OpArrayPop(g)
		}},
		{"A.insert-front med", func(w *World, r *Node) error {
			if !attached(a) {
				return nil
			}
			return w.OpArrayInsert(a, 0, med(2))
		}},
		{"A.remove first scalar", func(w *World, r *Node) error {
			if !attached(a) {
				return nil
			}
			if i := firstScalar(a); i >= 0 {
				return w.OpArrayRemove(a, uint64(i))
			}
			return nil
		}},
		{"A.settype", func(w *World, r *Node) error {
			if !attached(a) {
				return nil
			}
			return w.OpArraySetType(a, TI{ID: uint64(a.TI.ID+1) % 5})
		}},
		{"B.set k med", func(w *World, r *Node) error {
			return w.OpMapSet(b, &Node{Kind: KU64, U: uint64(len(b.M) % 4)}, med(3))
		}},
		{"B.remove k", func(w *World, r *Node) error {
			k := &Node{Kind: KU64, U: 0}
			if _, ok := b.M[keyString(k)]; !ok {
				return nil
			}
			return w.OpMapRemove(b, k)
		}},
		{"R.insert-front tiny", func(w *World, r *Node) error { return w.OpArrayInsert(r, 0, &Node{Kind: KU8, U: 1}) }},
		{"R.remove first scalar", func(w *World, r *Node) error {
			if i := firstScalar(r); i >= 0 {
				return w.OpArrayRemove(r, uint64(i))
			}
			return nil
		}},
		{"R.append max", func(w *World, r *Node) error {
			return w.OpArrayAppend(r, ssStr(w, int(atree.VerifThresholds().MaxInlineArrayElementSize), 4))
		}},
		{"commit", func(w *World, r *Node) error { return w.CommitAndCheck(false, 1) }},
	}
}

func runSmallScopeNested(c *CaseCtx, depth, part, parts int) *CaseResult {
	res := &CaseResult{Stats: newStats(), Obs: map[string]int{}}
	res.Config = map[string]any{"kind": "small-scope exhaustive nested handles", "depth": depth, "part": part, "parts": parts, "slab_size": 256}
	atree.VerifSetThreshold(256)
	defer atree.VerifSetThreshold(1024)
	const nops = 12
	total := 1
	for i := 0; i < depth; i++ {
		total *= nops
	}
	seqs := 0
	for wrapped := 0; wrapped < 2; wrapped++ {
		for sn := part; sn < total; sn += parts {
			w := NewWorld(int64(sn), addrOf(3, 0))
			w.mon = MonCfg{ColdAtCommit: true, DirtyEvery: 1}
			fail := func(err error) *CaseResult {
				if v, ok := err.(*Violation); ok {
					res.fail(v)
				} else {
					res.fail(viol("harness", "%v", err))
				}
				res.Trace = w.trace
				res.Hash = traceHash(res.Config, w.trace)
				return res
			}
			root, err := w.NewRootArray(w.addr, TI{ID: 1})
			if err != nil {
				return fail(err)
			}
			w.AddRoot(root)
			a, _ := w.NewRootArray(w.addr, TI{ID: 2})
			g, _ := w.NewRootArray(w.addr, TI{ID: 3})
			b, err := w.NewRootMap(w.addr, TI{ID: 4}, nil)
			if err != nil || a == nil || g == nil {
				return fail(viol("harness", "setup failed: %v", err))
			}
			var gv, av *Node = g, a
			if wrapped == 1 {
				gv = &Node{Kind: KSome, Inner: g}
				av = &Node{Kind: KSome, Inner: &Node{Kind: KSome, Inner: a}}
			}
			steps := []func() error{
				func() error { return w.OpArrayAppend(g, &Node{Kind: KU8, U: 9}) },
				func() error { return w.OpArrayAppend(a, &Node{Kind: KU8, U: 8}) },
				func() error { return w.OpArrayAppend(a, gv) },
				func() error { return w.OpArrayAppend(root, &Node{Kind: KU8, U: 7}) },
				func() error { return w.OpArrayAppend(root, av) },
				func() error { return w.OpArrayAppend(root, &Node{Kind: KU8, U: 6}) },
				func() error { return w.OpArrayAppend(root, b) },
			}
			for _, st := range steps {
				if err := st(); err != nil {
					return fail(err)
				}
			}
			ops := ssNestedOps(w, root, a, g, b)
			check := func() error {
				if err := w.CheckTree(true); err != nil {
					return err
				}
				if err := w.CheckDeep(); err != nil {
					return err
				}
				return w.CheckDirty()
			}
			if err := check(); err != nil {
				return fail(err)
			}
			x := sn
			for d := 0; d < depth; d++ {
				oi := x % nops
				x /= nops
				if err := ops[oi].run(w, root); err != nil {
					return fail(err)
				}
				if err := check(); err != nil {
					return fail(err)
				}
			}
			if err := w.CommitAndCheck(false, 2); err != nil {
				return fail(err)
			}
			seqs++
			res.Stats.InlineToStand += w.stats.InlineToStand
			res.Stats.StandToInline += w.stats.StandToInline
			res.Stats.ColdReopens += w.stats.ColdReopens
			if seqs == 1 {
				res.Trace = w.trace
			}
		}
	}
	res.Evals = seqs
	res.Obs["small-scope-sequences-nested"] = seqs
	res.Hash = fnv64(fmt.Sprintf("ssn|%d|%d|%d", depth, part, parts))
	res.NonTrivial = res.Stats.InlineToStand > 0 && res.Stats.StandToInline > 0
	return res
}
