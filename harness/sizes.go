package main

// CheckSizes is M-size / M-rt on the slabs dirtied since the last call (see sizes_impl.go).
func (w *World) CheckSizes() error {
	return w.checkSizesImpl()
}
