package main

import (
	"errors"
	"fmt"
	"math/rand"
	"os"
	"sort"

	"github.com/onflow/atree"
)

// digestVector computes the 4-level digest vector of a key under map n's digester.
func (w *World) digestVector(n *Node, key *Node) ([4]atree.Digest, error) {
	var out [4]atree.Digest
	var b atree.DigesterBuilder
	if n.Dig != nil {
		b = newAdvBuilder(*n.Dig)
		b.SetSeed(1, 0)
	} else {
		if err := w.handle(n); err != nil {
			return out, err
		}
		b = atree.NewDefaultDigesterBuilder()
		b.SetSeed(n.Map.Seed(), 0x1BD11BDAA9FC1A22)
	}
	cb := &Callbacks{HipClasses: w.cb.HipClasses}
	d, err := b.Digest(cb.HashInput, scalarValue(key))
	if err != nil {
		return out, err
	}
	for l := uint(0); l < 4 && l < d.Levels(); l++ {
		x, err := d.Digest(l)
		if err != nil {
			return out, err
		}
		out[l] = x
	}
	return out, nil
}

// ---------------------------------------------------------------------------------------------
// C12: hash collisions and the collision limit

var alphaChoices = []uint64{1, 2, 3, 0}

func runC12(c *CaseCtx) *CaseResult {
	r := rand.New(rand.NewSource(c.CaseSeed() ^ 0xc12))
	if c.Case%19 == 18 {
		// "collapse back to a single element" while the tree is tight: removal that makes the tree grow (props_struct.go)
		return runCollapseCase(c, r)
	}
	cc := &ContCase{Kind: "map"}
	cc.Slab = wideSlab(c.Case, []uint32{256, 1024, 512}[c.Case%3])
	// all 4^4 alphabet profiles are enumerated over the case list
	pi := c.Case % 256
	prof := DigProfile{Salt: uint64(r.Int63())}
	for l := 0; l < 4; l++ {
		prof.Alpha[l] = alphaChoices[pi%4]
		pi /= 4
	}
	if prof.Alpha[0] == 0 {
		// first level never collides with the full range: use a small range instead so that deeper levels matter
		prof.Alpha[0] = uint64(5 + r.Intn(40))
	}
	cc.Dig = &prof
	if c.Case%19 == 17 {
		// the library's DEFAULT digester (pooled circlehash / blake3 digesters) with a hash-input provider that covers
		// only part of the key: the keys of one class collide on all four levels at once
		cc.Dig = nil
		cc.HipClasses = uint64(3 + r.Intn(12))
	}
	limits := []uint32{0, 1, 2, 3, 7, 255}
	cc.Limit = limits[(c.Case/3)%len(limits)]
	if c.Case%13 == 12 {
		cc.Limit = uint32(r.Intn(12))
	}
	cc.SetLimit = true
	cc.Prof = DefaultValProfile()
	cc.Prof.KeySpace = 50 + r.Intn(550)
	cc.Prof.PContainer = 8
	cc.Prof.MaxDepth = 1
	cc.Prof.Sizes = []string{"small", "mixed"}[c.Case%2]
	ops := 420
	if c.Tier == "thorough" {
		ops = 700 + r.Intn(1200)
	}
	cc.Ops = ops
	cc.Hist = HistCfg{DescendPct: 5, PopOnChild: true, InvalidPct: 3}
	cc.Mon = MonCfg{TreeEvery: 1, DeepEvery: 53, RefEvery: 29, ReachEvery: 5, ColdAtCommit: true, DirtyEvery: 5}
	cc.CommitEvery = 70
	cc.Phases = scalePhases(ops, []Phase{PhaseGrow, PhaseChurn, PhaseShrink, PhaseGrow, PhaseDrain, PhaseGrow, PhaseChurn}, []int{25, 20, 10, 10, 10, 12, 13})

	updatesAtLimit := 0
	cc.Init = func(w *World, root *Node) {
		w.ExpectRefusal = func(n *Node, key *Node) bool {
			if n != root && w.cb.HipClasses == 0 {
				return false // nested maps use the default digester: no collisions unless the hash input itself collides
			}
			dv, err := w.digestVector(n, key)
			if err != nil {
				return false
			}
			// number of distinct second-level digests currently stored under the first-level digest
			l1 := map[atree.Digest]bool{}
			for _, e := range n.M {
				ev, err := w.digestVector(n, e.Key)
				if err != nil {
					return false
				}
				if ev[0] == dv[0] {
					l1[ev[1]] = true
				}
			}
			if len(l1) == 0 {
				return false
			}
			return uint32(len(l1)-1) >= cc.Limit
		}
	}
	cc.Final = func(w *World, root *Node, res *CaseResult) {
		// updates of existing keys are always accepted, also for digests whose budget is exhausted
		for _, e := range root.sortedEntries() {
			v := &Node{Kind: KU64, U: uint64(len(root.M))}
			if err := w.OpMapSet(root, e.Key, v); err != nil {
				if vv, ok := err.(*Violation); ok {
					res.fail(vv)
				} else {
					res.fail(viol("harness", "%v", err))
				}
				return
			}
			updatesAtLimit++
			if updatesAtLimit >= 40 {
				break
			}
		}
		if err := w.CheckTree(true); err != nil {
			res.fail(err.(*Violation))
		}
	}
	res, w, _ := runContainerCase(c, cc)
	s := w.stats
	s.Extra["updates-of-existing-keys-at-end"] += updatesAtLimit
	res.NonTrivial = s.InlineGroupsSeen > 0 && s.Extra["collision-limit-refusals"] > 0 && s.Extra["updates-at-exhausted-budget"] > 0 &&
		(s.ExtGroupsSeen > 0 || s.Extra["max-list-len"] >= 2)
	if os.Getenv("VERIF_DEBUG") != "" {
		fmt.Fprintf(os.Stderr, "C12 case %d limit %d alpha %v: inline %d refusals %d upd %d ext %d list %d viol %d\n", c.Case, cc.Limit, prof.Alpha, s.InlineGroupsSeen, s.Extra["collision-limit-refusals"], updatesAtLimit, s.ExtGroupsSeen, s.Extra["max-list-len"], len(res.Violations))
	}
	return res
}

// ---------------------------------------------------------------------------------------------
// C13: iterators

type kvNode struct {
	k, v *Node
	dv   [4]atree.Digest
	seq  uint64
}

// expectedMapOrder returns the model's entries in canonical order: ascending digest vector,
// fully colliding keys in insertion order.
func (w *World) expectedMapOrder(n *Node) ([]kvNode, error) {
	out := make([]kvNode, 0, len(n.M))
	for _, e := range n.M {
		dv, err := w.digestVector(n, e.Key)
		if err != nil {
			return nil, err
		}
		out = append(out, kvNode{e.Key, e.Val, dv, e.Seq})
	}
	sort.Slice(out, func(i, j int) bool {
		for l := 0; l < 4; l++ {
			if out[i].dv[l] != out[j].dv[l] {
				return out[i].dv[l] < out[j].dv[l]
			}
		}
		return out[i].seq < out[j].seq
	})
	return out, nil
}

func (w *World) checkArrayIterators(n *Node) error {
	if err := w.handle(n); err != nil {
		return err
	}
	v, err := w.freshRoot(n, w.st)
	if err != nil {
		return err
	}
	a := v.(*atree.Array)
	cmp := &cmpCtx{storage: w.st, cb: w.cb}
	L := uint64(len(n.Elems))
	collect := func(name string, run func(fn atree.ArrayIterationFunc) error, from, to uint64) error {
		i := from
		err := run(func(v atree.Value) (bool, error) {
			if i >= to {
				return false, fmt.Errorf("%s yields more than %d elements", name, to-from)
			}
			if err := cmp.shallowEquals(v, n.Elems[i], fmt.Sprintf("%s element %d", name, i)); err != nil {
				return false, err
			}
			i++
			return true, nil
		})
		if err != nil {
			return viol("iter", "%s: %v", name, err)
		}
		if i != to {
			return viol("iter", "%s yielded %d elements, expected %d", name, i-from, to-from)
		}
		w.stats.Extra["iterations-checked"]++
		return nil
	}
	if err := collect("Array.Iterate", a.Iterate, 0, L); err != nil {
		return err
	}
	if err := collect("Array.IterateReadOnly", a.IterateReadOnly, 0, L); err != nil {
		return err
	}
	if err := collect("Array.IterateReadOnlyLoadedValues", a.IterateReadOnlyLoadedValues, 0, L); err != nil {
		return err
	}
	// ranges: all pairs for short arrays, boundary-targeted pairs for long ones
	var pairs [][2]uint64
	if L <= 12 {
		for s := uint64(0); s <= L; s++ {
			for e := s; e <= L; e++ {
				pairs = append(pairs, [2]uint64{s, e})
			}
		}
	} else {
		cands := []uint64{0, 1, L / 2, L - 1, L}
		for _, b := range w.bounds {
			if b <= L {
				cands = append(cands, b)
				if b > 0 {
					cands = append(cands, b-1)
				}
				if b+1 <= L {
					cands = append(cands, b+1)
				}
			}
		}
		for k := 0; k < 14; k++ {
			s := cands[w.rng.Intn(len(cands))]
			e := cands[w.rng.Intn(len(cands))]
			if s > e {
				s, e = e, s
			}
			pairs = append(pairs, [2]uint64{s, e})
		}
	}
	for _, p := range pairs {
		s, e := p[0], p[1]
		if err := collect(fmt.Sprintf("Array.IterateRange(%d,%d)", s, e), func(fn atree.ArrayIterationFunc) error { return a.IterateRange(s, e, fn) }, s, e); err != nil {
			return err
		}
		if err := collect(fmt.Sprintf("Array.IterateReadOnlyRange(%d,%d)", s, e), func(fn atree.ArrayIterationFunc) error { return a.IterateReadOnlyRange(s, e, fn) }, s, e); err != nil {
			return err
		}
		w.stats.Extra["ranges-checked"]++
	}
	// invalid ranges
	nop := func(atree.Value) (bool, error) { return true, nil }
	type bad struct{ s, e uint64 }
	for _, b := range []bad{{L + 1, L + 1}, {0, L + 1}, {L + 2, L + 5}, {L, L + 1}, {1 << 32, 1<<32 + 1}, {0, 1<<32 + L}, {1 << 32, 1<<32 + L}, {0, ^uint64(0)}, {1 << 63, 1<<63 + L}} {
		for _, ro := range []bool{false, true} {
			var err error
			if ro {
				err = a.IterateReadOnlyRange(b.s, b.e, nop)
			} else {
				err = a.IterateRange(b.s, b.e, nop)
			}
			var se *atree.SliceOutOfBoundsError
			if err == nil || !errors.As(err, &se) || !isUserError(err) {
				return viol("iter-range", "range (%d,%d) on %d elements (read-only=%v): expected slice-out-of-bounds user error, got %v", b.s, b.e, L, ro, err)
			}
			w.stats.Extra["invalid-ranges-rejected"]++
		}
	}
	if L >= 1 {
		for _, ro := range []bool{false, true} {
			var err error
			if ro {
				err = a.IterateReadOnlyRange(L, L-1, nop)
			} else {
				err = a.IterateRange(L, L-1, nop)
			}
			var ie *atree.InvalidSliceIndexError
			if err == nil || !errors.As(err, &ie) || !isUserError(err) {
				return viol("iter-range", "range (%d,%d): expected invalid-slice-index user error, got %v", L, L-1, err)
			}
			w.stats.Extra["invalid-ranges-rejected"]++
		}
	}
	return nil
}

func (w *World) checkMapIterators(n *Node) error {
	if err := w.handle(n); err != nil {
		return err
	}
	v, err := w.freshRoot(n, w.st)
	if err != nil {
		return err
	}
	m := v.(*atree.OrderedMap)
	exp, err := w.expectedMapOrder(n)
	if err != nil {
		return err
	}
	cmp := &cmpCtx{storage: w.st, cb: w.cb}
	checkKey := func(name string, i int, k atree.Value) error {
		if i >= len(exp) {
			return fmt.Errorf("%s yields more than %d entries", name, len(exp))
		}
		if !scalarEqual(k, exp[i].k) {
			return fmt.Errorf("%s position %d: key %v, expected %s (canonical order: digest vector, then insertion order)", name, i, k, exp[i].k)
		}
		return nil
	}
	entries := func(name string, run func(fn atree.MapEntryIterationFunc) error) error {
		i := 0
		err := run(func(k, v atree.Value) (bool, error) {
			if err := checkKey(name, i, k); err != nil {
				return false, err
			}
			if err := cmp.shallowEquals(v, exp[i].v, fmt.Sprintf("%s value %d", name, i)); err != nil {
				return false, err
			}
			i++
			return true, nil
		})
		if err != nil {
			return viol("iter", "%s: %v", name, err)
		}
		if i != len(exp) {
			return viol("iter", "%s yielded %d entries, expected %d", name, i, len(exp))
		}
		w.stats.Extra["iterations-checked"]++
		return nil
	}
	singles := func(name string, keys bool, run func(fn atree.MapElementIterationFunc) error) error {
		i := 0
		err := run(func(x atree.Value) (bool, error) {
			if keys {
				if err := checkKey(name, i, x); err != nil {
					return false, err
				}
			} else {
				if i >= len(exp) {
					return false, fmt.Errorf("%s yields more than %d values", name, len(exp))
				}
				if err := cmp.shallowEquals(x, exp[i].v, fmt.Sprintf("%s value %d", name, i)); err != nil {
					return false, err
				}
			}
			i++
			return true, nil
		})
		if err != nil {
			return viol("iter", "%s: %v", name, err)
		}
		if i != len(exp) {
			return viol("iter", "%s yielded %d items, expected %d", name, i, len(exp))
		}
		w.stats.Extra["iterations-checked"]++
		return nil
	}
	if err := entries("Map.Iterate", func(fn atree.MapEntryIterationFunc) error { return m.Iterate(w.cb.Compare, w.cb.HashInput, fn) }); err != nil {
		return err
	}
	if err := entries("Map.IterateReadOnly", m.IterateReadOnly); err != nil {
		return err
	}
	if err := entries("Map.IterateReadOnlyLoadedValues", m.IterateReadOnlyLoadedValues); err != nil {
		return err
	}
	if err := singles("Map.IterateKeys", true, func(fn atree.MapElementIterationFunc) error { return m.IterateKeys(w.cb.Compare, w.cb.HashInput, fn) }); err != nil {
		return err
	}
	if err := singles("Map.IterateReadOnlyKeys", true, m.IterateReadOnlyKeys); err != nil {
		return err
	}
	if err := singles("Map.IterateValues", false, func(fn atree.MapElementIterationFunc) error { return m.IterateValues(w.cb.Compare, w.cb.HashInput, fn) }); err != nil {
		return err
	}
	if err := singles("Map.IterateReadOnlyValues", false, m.IterateReadOnlyValues); err != nil {
		return err
	}
	return nil
}

// checkMutatingIteration iterates the root with the mutable iterator while overwriting the current
// element and mutating the nested container just yielded; the yielded sequence must be the
// pre-mutation one (every element exactly once), the final content the mutated model.
func (w *World) checkMutatingIteration(root *Node) error {
	if err := w.handle(root); err != nil {
		return err
	}
	w.logOp("mutating iteration over %s", root)
	w.stats.Extra["mutating-iterations"]++
	th := atree.VerifThresholds()
	mutateChild := func(cn *Node, v atree.Value) error {
		// the yielded value is the newest handle of that child
		dropHandles(cn, true)
		if err := w.setHandleFromValue(cn, v); err != nil {
			return err
		}
		k := 1 + w.rng.Intn(6)
		for j := 0; j < k; j++ {
			if cn.Kind == KArr {
				if err := w.OpArrayAppend(cn, w.genScalar(th.MaxInlineArrayElementSize/3)); err != nil {
					return err
				}
			} else {
				if err := w.OpMapSet(cn, w.genKey(cn, 40), w.genScalar(th.MaxInlineMapElementSize/4)); err != nil {
					return err
				}
			}
		}
		w.stats.Extra["child-mutations-during-iteration"]++
		return nil
	}
	if root.Kind == KArr {
		pre := append([]*Node(nil), root.Elems...)
		// flavour of the mutable enumeration: whole-array callback, range callback, iterator objects
		from, to := 0, len(pre)
		flavour := w.rng.Intn(5)
		if (flavour == 2 || flavour == 4) && len(pre) > 2 {
			from = w.rng.Intn(len(pre) / 2)
			to = from + 1 + w.rng.Intn(len(pre)-from)
		}
		w.stats.Extra[fmt.Sprintf("mutating-iteration-array-flavour-%d", flavour)]++
		i := from
		var inner error
		visit := func(v atree.Value) (bool, error) {
			if i >= to {
				inner = viol("iter-mut", "mutable iteration yields more than %d elements", to-from)
				return false, nil
			}
			cmp := &cmpCtx{storage: w.st, cb: w.cb}
			if err := cmp.shallowEquals(v, pre[i], fmt.Sprintf("mutable iteration element %d", i)); err != nil {
				inner = viol("iter-mut", "%v", err)
				return false, nil
			}
			switch roll := w.rng.Intn(10); {
			case roll < 3:
				// overwrite the current element
				nv := w.genScalar(th.MaxInlineArrayElementSize)
				if err := w.OpArraySet(root, uint64(i), nv); err != nil {
					inner = err
					return false, nil
				}
				w.stats.Extra["overwrites-during-iteration"]++
			case roll < 7:
				if cn := pre[i].container(); cn != nil {
					if err := mutateChild(cn, v); err != nil {
						inner = err
						return false, nil
					}
				}
			}
			i++
			return true, nil
		}
		drive := func(it atree.ArrayIterator, err error) error {
			if err != nil {
				return err
			}
			for {
				v, err := it.Next()
				if err != nil {
					return err
				}
				if v == nil {
					return nil
				}
				if resume, _ := visit(v); !resume {
					return nil
				}
			}
		}
		var err error
		switch flavour {
		case 0:
			err = root.Arr.Iterate(visit)
		case 1, 2:
			err = root.Arr.IterateRange(uint64(from), uint64(to), visit)
		case 3:
			err = drive(root.Arr.Iterator())
		default:
			err = drive(root.Arr.RangeIterator(uint64(from), uint64(to)))
		}
		if inner != nil {
			return inner
		}
		if err != nil {
			return viol("iter-mut", "mutable iteration (flavour %d, range %d..%d) failed: %v", flavour, from, to, err)
		}
		if i != to {
			return viol("iter-mut", "mutable iteration (flavour %d) yielded %d of %d elements", flavour, i-from, to-from)
		}
		return nil
	}
	exp, err := w.expectedMapOrder(root)
	if err != nil {
		return err
	}
	// flavour: 0 entries callback, 1 values-only callback, 2 keys-only callback, 3 iterator object with Next,
	// 4 iterator object with a PRNG mix of Next / NextKey / NextValue
	flavour := w.rng.Intn(5)
	w.stats.Extra[fmt.Sprintf("mutating-iteration-map-flavour-%d", flavour)]++
	i := 0
	var inner error
	// visit receives whichever of key / value the flavour yields (nil when not yielded)
	visit := func(k, v atree.Value) bool {
		if i >= len(exp) {
			inner = viol("iter-mut", "mutable iteration yields more than %d entries", len(exp))
			return false
		}
		if k != nil && !scalarEqual(k, exp[i].k) {
			inner = viol("iter-mut", "mutable iteration (flavour %d) position %d: key %v, expected %s", flavour, i, k, exp[i].k)
			return false
		}
		if v != nil {
			cmp := &cmpCtx{storage: w.st, cb: w.cb}
			if err := cmp.shallowEquals(v, exp[i].v, fmt.Sprintf("mutable iteration (flavour %d) value %d", flavour, i)); err != nil {
				inner = viol("iter-mut", "%v", err)
				return false
			}
		}
		switch roll := w.rng.Intn(10); {
		case roll < 3:
			nv := w.genScalar(atree.VerifMaxInlineMapValueSize(8))
			if err := w.OpMapSet(root, exp[i].k, nv); err != nil {
				inner = err
				return false
			}
			w.stats.Extra["overwrites-during-iteration"]++
		case roll < 7:
			if cn := exp[i].v.container(); cn != nil && v != nil {
				if err := mutateChild(cn, v); err != nil {
					inner = err
					return false
				}
			}
		}
		i++
		return true
	}
	switch flavour {
	case 0:
		err = root.Map.Iterate(w.cb.Compare, w.cb.HashInput, func(k, v atree.Value) (bool, error) { return visit(k, v), nil })
	case 1:
		err = root.Map.IterateValues(w.cb.Compare, w.cb.HashInput, func(v atree.Value) (bool, error) { return visit(nil, v), nil })
	case 2:
		err = root.Map.IterateKeys(w.cb.Compare, w.cb.HashInput, func(k atree.Value) (bool, error) { return visit(k, nil), nil })
	default:
		var it atree.MapIterator
		it, err = root.Map.Iterator(w.cb.Compare, w.cb.HashInput)
		for err == nil {
			var k, v atree.Value
			mode := 0
			if flavour == 4 {
				mode = w.rng.Intn(3)
			}
			switch mode {
			case 0:
				k, v, err = it.Next()
			case 1:
				k, err = it.NextKey()
			default:
				v, err = it.NextValue()
			}
			if err != nil || (k == nil && v == nil) {
				break
			}
			if !visit(k, v) {
				break
			}
		}
	}
	if inner != nil {
		return inner
	}
	if err != nil {
		return viol("iter-mut", "mutable iteration (flavour %d) failed: %v", flavour, err)
	}
	if i != len(exp) {
		return viol("iter-mut", "mutable iteration (flavour %d) yielded %d of %d entries", flavour, i, len(exp))
	}
	return nil
}

// checkColdIterations: on a cold copy of the registers, (a) partially loaded containers yield an in-order
// subsequence of the full enumeration, (b) bulk pop yields the exact reverse of the canonical order.
func (w *World) checkColdIterations(root *Node) error {
	regs := w.led.Snapshot()
	id := rootID(root)

	// (a0) every full-enumeration flavour alone on a storage that has loaded nothing / a PRNG half before
	if err := w.checkColdFlavours(root, regs); err != nil {
		return err
	}

	// (a) partial load
	for round := 0; round < 3; round++ {
		ps := newStorage(NewLedgerFrom(regs, nil))
		ids := sortedIDs(regs)
		// load the root and a PRNG subset
		for _, x := range ids {
			if x == id || w.rng.Intn(100) < 30+30*round {
				if _, _, err := ps.Retrieve(x); err != nil {
					return viol("iter-partial", "loading %s failed: %v", x, err)
				}
			}
		}
		if root.Kind == KArr {
			a, err := atree.NewArrayWithRootID(ps, id)
			if err != nil {
				return viol("iter-partial", "cold open failed: %v", err)
			}
			pos := 0
			n := 0
			err = a.IterateReadOnlyLoadedValues(func(v atree.Value) (bool, error) {
				cmp := &cmpCtx{storage: ps, cb: w.cb}
				for pos < len(root.Elems) && cmp.shallowEquals(v, root.Elems[pos], "") != nil {
					pos++
				}
				if pos >= len(root.Elems) {
					return false, fmt.Errorf("loaded-values iteration yields %v which is not an in-order continuation of the full enumeration", v)
				}
				pos++
				n++
				return true, nil
			})
			if err != nil {
				return viol("iter-partial", "%v", err)
			}
			w.stats.Extra["partial-load-iterations"]++
			w.stats.Extra["partial-load-elements"] += n
		} else {
			m, err := atree.NewMapWithRootID(ps, id, w.builderFor(root))
			if err != nil {
				return viol("iter-partial", "cold open failed: %v", err)
			}
			exp, err := w.expectedMapOrder(root)
			if err != nil {
				return err
			}
			pos := 0
			n := 0
			err = m.IterateReadOnlyLoadedValues(func(k, v atree.Value) (bool, error) {
				for pos < len(exp) && !scalarEqual(k, exp[pos].k) {
					pos++
				}
				if pos >= len(exp) {
					return false, fmt.Errorf("loaded-values iteration yields key %v which is not an in-order continuation of the full enumeration", k)
				}
				pos++
				n++
				return true, nil
			})
			if err != nil {
				return viol("iter-partial", "%v", err)
			}
			w.stats.Extra["partial-load-iterations"]++
			w.stats.Extra["partial-load-elements"] += n
		}
	}

	// (b) reverse-order bulk pop on a cold copy
	ps := newStorage(NewLedgerFrom(regs, nil))
	cmp := &cmpCtx{storage: ps, cb: w.cb}
	if root.Kind == KArr {
		a, err := atree.NewArrayWithRootID(ps, id)
		if err != nil {
			return viol("iter-pop", "cold open failed: %v", err)
		}
		i := len(root.Elems) - 1
		var inner error
		err = a.PopIterate(func(s atree.Storable) {
			if inner != nil {
				return
			}
			if i < 0 {
				inner = fmt.Errorf("bulk pop yields more than %d elements", len(root.Elems))
				return
			}
			v, err := s.StoredValue(ps)
			if err != nil {
				inner = err
				return
			}
			if err := cmp.shallowEquals(v, root.Elems[i], fmt.Sprintf("bulk pop element %d", i)); err != nil {
				inner = err
			}
			i--
		})
		if err == nil {
			err = inner
		}
		if err != nil {
			return viol("iter-pop", "%v", err)
		}
		if i != -1 {
			return viol("iter-pop", "bulk pop yielded %d of %d elements", len(root.Elems)-1-i, len(root.Elems))
		}
	} else {
		m, err := atree.NewMapWithRootID(ps, id, w.builderFor(root))
		if err != nil {
			return viol("iter-pop", "cold open failed: %v", err)
		}
		exp, err := w.expectedMapOrder(root)
		if err != nil {
			return err
		}
		i := len(exp) - 1
		var inner error
		err = m.PopIterate(func(ks, vs atree.Storable) {
			if inner != nil {
				return
			}
			if i < 0 {
				inner = fmt.Errorf("bulk pop yields more than %d entries", len(exp))
				return
			}
			k, err := ks.StoredValue(ps)
			if err != nil {
				inner = err
				return
			}
			if !scalarEqual(k, exp[i].k) {
				inner = fmt.Errorf("bulk pop position %d from the end: key %v, expected %s", len(exp)-1-i, k, exp[i].k)
			}
			i--
		})
		if err == nil {
			err = inner
		}
		if err != nil {
			return viol("iter-pop", "%v", err)
		}
		if i != -1 {
			return viol("iter-pop", "bulk pop yielded %d of %d entries", len(exp)-1-i, len(exp))
		}
	}
	w.stats.Extra["reverse-pops-checked"]++
	return nil
}

func runC13(c *CaseCtx) *CaseResult {
	r := rand.New(rand.NewSource(c.CaseSeed() ^ 0xc13))
	kind := "array"
	if c.Case%2 == 1 {
		kind = "map"
	}
	cc := &ContCase{Kind: kind}
	cc.Slab = wideSlab(c.Case, []uint32{256, 512, 1024}[c.Case/2%3])
	cc.Prof = DefaultValProfile()
	cc.Prof.PContainer = 15
	cc.Prof.MaxDepth = 2
	cc.Prof.Sizes = []string{"small", "mixed", "hostile"}[c.Case%3]
	ops := 360
	if c.Tier == "thorough" {
		ops = 700 + r.Intn(1500)
	}
	if c.Case%16 >= 14 {
		// trees of three and more levels (index slabs below index slabs): positioning a range / resuming an enumeration
		// has to descend through several index levels
		cc.Slab = 256
		cc.Prof.Sizes = "small"
		cc.Prof.PContainer = 2
		cc.Prof.MaxDepth = 1
		cc.Prof.BigKeys = false
		cc.Prof.KeySpace = 20000
		ops = 3600
		if c.Tier == "thorough" {
			ops = 9000 + r.Intn(9000)
		}
	}
	cc.Ops = ops
	cc.Hist = HistCfg{DescendPct: 8, PopOnChild: true}
	cc.Mon = MonCfg{TreeEvery: 11, DeepEvery: 0, ColdAtCommit: false}
	cc.CommitEvery = 0
	if kind == "map" {
		switch c.Case / 2 % 4 {
		case 0: // default digester; half of these cases with a hash-input provider that covers only part of the key
			// (keys of one class collide on all levels and must be enumerated in insertion order)
			if c.Case%16 < 8 {
				cc.HipClasses = uint64(8 + r.Intn(30))
			}
		case 1:
			cc.Dig = &DigProfile{Alpha: [4]uint64{uint64(10 + r.Intn(40)), 3, 2, 0}, Salt: uint64(r.Int63())}
		case 2:
			cc.Dig = &DigProfile{Alpha: [4]uint64{uint64(4 + r.Intn(8)), 2, 1, 1}, Salt: uint64(r.Int63())} // last-level lists: insertion order
		case 3:
			cc.Dig = &DigProfile{Alpha: [4]uint64{uint64(6 + r.Intn(10)), 1, 2, 0}, Salt: uint64(r.Int63())}
		}
		cc.Prof.KeySpace = 200
	}
	cc.Phases = scalePhases(ops, []Phase{PhaseGrow, PhaseChurn, PhaseGrow, PhaseShrink}, []int{35, 25, 25, 15})
	if c.Case%16 >= 14 {
		grow := Phase{Name: "grow", Insert: 90, Set: 3, Remove: 2, Read: 5, Meta: 0, Pop: 0}
		cc.Phases = scalePhases(ops, []Phase{grow, PhaseChurn, grow}, []int{60, 10, 30})
		cc.Mon.TreeEvery = 97
	}
	every := ops / 6
	cc.PerOp = func(w *World, root *Node) error {
		if w.opCount%every != 0 {
			return nil
		}
		if root.Kind == KArr {
			if err := w.checkArrayIterators(root); err != nil {
				return err
			}
		} else {
			if err := w.checkMapIterators(root); err != nil {
				return err
			}
		}
		if err := w.checkIteratorObjects(root); err != nil {
			return err
		}
		if err := w.checkMutatingIteration(root); err != nil {
			return err
		}
		if err := w.CheckTree(true); err != nil {
			return err
		}
		if err := w.CheckDeep(); err != nil {
			return err
		}
		if err := w.CommitAndCheck(false, 2); err != nil {
			return err
		}
		return w.checkColdIterations(root)
	}
	res, w, _ := runContainerCase(c, cc)
	s := w.stats
	res.NonTrivial = s.MaxRootSlabs >= 3 && s.Extra["iterations-checked"] > 0 && s.Extra["partial-load-iterations"] > 0 &&
		(kind == "array" || cc.Dig == nil || s.InlineGroupsSeen > 0)
	return res
}

// ---------------------------------------------------------------------------------------------
// C18: rejected requests

func runC18(c *CaseCtx) *CaseResult {
	r := rand.New(rand.NewSource(c.CaseSeed() ^ 0xc18))
	kind := "array"
	if c.Case%2 == 1 {
		kind = "map"
	}
	alpha0 := uint64(4 + r.Intn(6))
	mk := func() *ContCase {
		cc := &ContCase{Kind: kind}
		cc.Slab = wideSlab(c.Case, []uint32{256, 1024, 512}[c.Case/2%3])
		cc.Prof = DefaultValProfile()
		cc.Prof.PContainer = 20
		cc.Prof.MaxDepth = 3
		cc.Prof.Sizes = []string{"mixed", "hostile"}[c.Case/2%2]
		cc.Ops = 380
		if c.Tier == "thorough" {
			cc.Ops = 900
		}
		cc.Hist = HistCfg{DescendPct: 35, PopOnChild: true, InvalidPct: 25}
		cc.Mon = MonCfg{TreeEvery: 1, DeepEvery: 31, ReachEvery: 1, ColdAtCommit: true, DirtyEvery: 5}
		cc.CommitEvery = 90
		if kind == "map" && c.Case%4 == 1 {
			cc.Dig = &DigProfile{Alpha: [4]uint64{alpha0, 3, 2, 0}, Salt: uint64(c.CaseSeed())}
			if c.Case%8 == 5 {
				cc.Dig.Alpha = [4]uint64{alpha0, 2, 1, 1} // keys colliding on every level: linearly scanned last-level lists
			}
			cc.Limit = uint32(c.Case / 4 % 3)
			cc.SetLimit = true
			cc.Prof.KeySpace = 120
		}
		return cc
	}
	install := func(cc *ContCase, skip bool) {
		done := false
		cc.PerOp = func(w *World, root *Node) error {
			if done {
				return nil
			}
			done = true
			w.SkipInvalid = skip
			if cc.SetLimit {
				w.ExpectRefusal = func(n *Node, key *Node) bool {
					if n != root {
						return false
					}
					dv, err := w.digestVector(n, key)
					if err != nil {
						return false
					}
					l1 := map[atree.Digest]bool{}
					for _, e := range n.M {
						ev, _ := w.digestVector(n, e.Key)
						if ev[0] == dv[0] {
							l1[ev[1]] = true
						}
					}
					return len(l1) > 0 && uint32(len(l1)-1) >= cc.Limit
				}
			}
			return nil
		}
	}
	// world A issues the rejected requests, world B (twin) generates but skips them
	ccA := mk()
	install(ccA, false)
	var regsA map[atree.SlabID][]byte
	ccA.Final = func(w *World, root *Node, res *CaseResult) {
		// undefined identifiers
		if _, err := atree.NewArrayWithRootID(w.st, atree.SlabIDUndefined); !isSlabIDFatal(err) {
			res.fail(viol("ret-err", "NewArrayWithRootID(undefined id): expected fatal slab-id error, got %v", err))
		}
		if _, err := atree.NewMapWithRootID(w.st, atree.SlabIDUndefined, atree.NewDefaultDigesterBuilder()); !isSlabIDFatal(err) {
			res.fail(viol("ret-err", "NewMapWithRootID(undefined id): expected fatal slab-id error, got %v", err))
		}
		d0 := w.ps.Deltas()
		if err := w.ps.Store(atree.SlabIDUndefined, nil); !isSlabIDFatal(err) {
			res.fail(viol("ret-err", "Store(undefined id): expected fatal slab-id error, got %v", err))
		}
		if err := w.ps.Remove(atree.SlabIDUndefined); !isSlabIDFatal(err) {
			res.fail(viol("ret-err", "Remove(undefined id): expected fatal slab-id error, got %v", err))
		}
		if w.ps.Deltas() != d0 {
			res.fail(viol("reject-trace", "rejected Store/Remove with the undefined id changed the write set"))
		}
		w.stats.Extra["undefined-id-requests"] += 4
		// invalid ranges (arrays): typed user errors, no trace
		if root.Kind == KArr {
			if err := w.handle(root); err == nil {
				L := uint64(len(root.Elems))
				nop := func(atree.Value) (bool, error) { return true, nil }
				w.st.BeginOp()
				d1 := w.ps.Deltas()
				for _, b := range [][2]uint64{{L + 1, L + 1}, {0, L + 1}, {L + 3, L + 9}} {
					for _, f := range []func(uint64, uint64, atree.ArrayIterationFunc) error{root.Arr.IterateRange, root.Arr.IterateReadOnlyRange} {
						err := f(b[0], b[1], nop)
						var se *atree.SliceOutOfBoundsError
						if err == nil || !errors.As(err, &se) || !isUserError(err) {
							res.fail(viol("ret-err", "range (%d,%d) on %d elements: expected slice-out-of-bounds user error, got %v", b[0], b[1], L, err))
						}
						w.stats.Rejected++
					}
				}
				if L >= 1 {
					err := root.Arr.IterateRange(L, L-1, nop)
					var ie *atree.InvalidSliceIndexError
					if err == nil || !errors.As(err, &ie) || !isUserError(err) {
						res.fail(viol("ret-err", "range (%d,%d): expected invalid-slice-index user error, got %v", L, L-1, err))
					}
					w.stats.Rejected++
				}
				if w.ps.Deltas() != d1 || w.st.OpStores+w.st.OpRemoves+w.st.OpGenerates != 0 {
					res.fail(viol("reject-trace", "rejected range requests touched the storage"))
				}
				w.stats.Extra["invalid-range-requests"]++
			}
		}
		if err := w.externalErrorEnumeration(root); err != nil {
			res.fail(err.(*Violation))
		}
		regsA = w.led.Snapshot()
	}
	resA, wA, _ := runContainerCase(c, ccA)
	if len(resA.Violations) > 0 {
		return resA
	}
	ccB := mk()
	install(ccB, true)
	var regsB map[atree.SlabID][]byte
	ccB.Final = func(w *World, root *Node, res *CaseResult) { regsB = w.led.Snapshot() }
	resB, _, _ := runContainerCase(c, ccB)
	for _, v := range resB.Violations {
		resA.fail(viol("twin-"+v.Sig, "in the twin run without the rejected requests: %s", v.Msg))
	}
	if len(resB.Violations) == 0 {
		if regsDigest(regsA) != regsDigest(regsB) {
			resA.fail(viol("reject-registers", "the history with rejected requests committed different registers than the same history without them: %v", diffRegs(regsA, regsB)))
		}
		wA.stats.Extra["twin-register-comparisons"]++
	}
	s := wA.stats
	resA.NonTrivial = s.Rejected >= 20 && s.MaxRootSlabs >= 2 && s.Extra["external-error-injections"] > 0
	return resA
}

func isSlabIDFatal(err error) bool {
	var e *atree.SlabIDError
	return err != nil && errors.As(err, &e) && isFatalError(err)
}

// externalErrorEnumeration: on a cold storage, count the calls a lookup makes to the ledger, the comparator and the
// hash-input provider; then fail call n for every n. Each failure must surface as an external error wrapping the
// injected sentinel, and the lookup must work again afterwards.
func (w *World) externalErrorEnumeration(root *Node) error {
	regs := w.led.Snapshot()
	id := rootID(root)
	var probeKeys []*Node
	if root.Kind == KMap {
		es := root.sortedEntries()
		for i := 0; i < 6 && len(es) > 0; i++ {
			probeKeys = append(probeKeys, es[w.rng.Intn(len(es))].Key)
		}
		for i := 0; i < 2; i++ {
			probeKeys = append(probeKeys, w.genKey(root, w.prof.KeySpace*3))
		}
	}
	probe := func(failR, failC, failH int) (int, int, int, error, error) {
		led := NewLedgerFrom(regs, nil)
		ps := newStorage(led)
		cb := &Callbacks{FailCmpAt: failC, FailHipAt: failH}
		if failR > 0 {
			led.FailRetrieve = func(n int, _ atree.SlabID) bool { return n == failR }
		}
		var opErr error
		if root.Kind == KArr {
			a, err := atree.NewArrayWithRootID(ps, id)
			if err != nil {
				return led.retrieveNo, cb.CmpCalls, cb.HipCalls, err, nil
			}
			if len(root.Elems) > 0 {
				_, opErr = a.Get(uint64(len(root.Elems) / 2))
				if opErr == nil {
					_, opErr = a.Get(uint64(len(root.Elems) - 1))
				}
			}
		} else {
			m, err := atree.NewMapWithRootID(ps, id, w.builderFor(root))
			if err != nil {
				return led.retrieveNo, cb.CmpCalls, cb.HipCalls, err, nil
			}
			// lookups of several present keys (spread over the structure: plain elements, collision groups, last-level
			// lists) with Get and Has, and of absent keys next to them
			for _, k := range probeKeys {
				if opErr != nil {
					break
				}
				_, opErr = m.Get(cb.Compare, cb.HashInput, scalarValue(k))
				if isKeyNotFound(opErr) {
					opErr = nil
				}
				if opErr == nil {
					_, opErr = m.Has(cb.Compare, cb.HashInput, scalarValue(k))
				}
			}
		}
		return led.retrieveNo, cb.CmpCalls, cb.HipCalls, nil, opErr
	}
	nr, nc, nh, openErr, opErr := probe(0, 0, 0)
	if openErr != nil || opErr != nil {
		return viol("external", "fault-free cold lookup failed: %v %v", openErr, opErr)
	}
	check := func(what string, n int, openErr, opErr error, sentinel error) error {
		err := openErr
		if err == nil {
			err = opErr
		}
		if err == nil {
			return viol("external", "%s call %d failed but the lookup reported success", what, n)
		}
		if !isExternalError(err) || !errors.Is(err, sentinel) {
			return viol("external", "%s call %d failed: error is not an external error wrapping the injected fault: %v", what, n, err)
		}
		w.stats.Extra["external-error-injections"]++
		return nil
	}
	for n := 1; n <= nr; n++ {
		_, _, _, oe, pe := probe(n, 0, 0)
		if err := check("ledger read", n, oe, pe, ErrInjected); err != nil {
			return err
		}
	}
	for n := 1; n <= nc; n++ {
		_, _, _, oe, pe := probe(0, n, 0)
		if err := check("key comparator", n, oe, pe, ErrCallback); err != nil {
			return err
		}
	}
	for n := 1; n <= nh; n++ {
		_, _, _, oe, pe := probe(0, 0, n)
		if err := check("hash-input provider", n, oe, pe, ErrCallback); err != nil {
			return err
		}
	}
	w.stats.Extra["external-lookup-slab-reads"] += nr
	return nil
}

// ---------------------------------------------------------------------------------------------
// C08: cache transparency (schedules of commit / drop cache / reopen)

func runC08(c *CaseCtx) *CaseResult {
	if c.Case%24 == 23 {
		// more than 256 inlined children in one slab, committed, evicted and read back (props_struct.go)
		return runWideParentCase(c, rand.New(rand.NewSource(c.CaseSeed()^0x256)))
	}
	r := rand.New(rand.NewSource(c.CaseSeed() ^ 0xc08))
	kind := "array"
	if c.Case%2 == 1 {
		kind = "map"
	}
	composite := c.Case%4 >= 2
	alpha0 := uint64(8 + r.Intn(20))
	mk := func() *ContCase {
		cc := &ContCase{Kind: kind}
		cc.Slab = wideSlab(c.Case, []uint32{256, 1024, 512}[c.Case/4%3])
		cc.Prof = DefaultValProfile()
		cc.Prof.PContainer = 22
		cc.Prof.MaxDepth = 3
		cc.Prof.PSome = 15
		cc.Prof.Composite = composite
		cc.Prof.Sizes = []string{"mixed", "small", "hostile"}[c.Case/4%3]
		cc.Ops = 300
		if c.Tier == "thorough" {
			cc.Ops = 800
		}
		cc.Hist = HistCfg{DescendPct: 40, PopOnChild: true, InvalidPct: 2}
		cc.Mon = MonCfg{TreeEvery: 13, DeepEvery: 59, ColdAtCommit: true, DirtyEvery: 2}
		cc.CommitEvery = 0
		if kind == "map" && c.Case%8 == 1 {
			cc.Dig = &DigProfile{Alpha: [4]uint64{alpha0, 2, 2, 0}, Salt: uint64(c.CaseSeed())}
		}
		return cc
	}
	type schedule struct {
		name string
		step func(w *World, k int) error
	}
	commit := func(w *World) error { return w.Commit(false, 1+w.opCount%3) }
	schedules := []schedule{
		{"never-until-end", func(w *World, k int) error { return nil }},
		{"commit-every-op", func(w *World, k int) error { return commit(w) }},
		{"commit+dropcache-every-3", func(w *World, k int) error {
			if k%3 != 0 {
				return nil
			}
			if err := commit(w); err != nil {
				return err
			}
			w.DropCache()
			return nil
		}},
		{"reopen-every-5", func(w *World, k int) error {
			if k%5 != 0 {
				return nil
			}
			if err := commit(w); err != nil {
				return err
			}
			return w.Reopen()
		}},
		{"dropcache-only-every-2", func(w *World, k int) error {
			if k%2 == 0 {
				w.DropCache()
			}
			return nil
		}},
		{"mixed", func(w *World, k int) error {
			switch (k * 7) % 11 {
			case 0, 3:
				return commit(w)
			case 5:
				w.DropCache()
			case 8:
				if err := commit(w); err != nil {
					return err
				}
				return w.Reopen()
			case 9:
				if err := commit(w); err != nil {
					return err
				}
				w.DropCache()
			}
			return nil
		}},
	}
	nsched := len(schedules)
	var first *CaseResult
	var firstW *World
	var regs0 map[atree.SlabID][]byte
	var trace0 uint64
	mutatedDecoded := 0
	for si := 0; si < nsched; si++ {
		sc := schedules[si]
		cc := mk()
		cc.PerOp = func(w *World, root *Node) error {
			before := w.led.retrieveNo
			err := sc.step(w, w.opCount)
			_ = before
			return err
		}
		var regs map[atree.SlabID][]byte
		cc.Final = func(w *World, root *Node, res *CaseResult) {
			regs = w.led.Snapshot()
			mutatedDecoded += w.led.retrieveNo
		}
		res, w, _ := runContainerCase(c, cc)
		if first == nil {
			first, firstW = res, w
		}
		if w.Stuck && len(res.Violations) == 0 {
			// the library refused a commit because of its 256-entry limit (World.TolerateInlineLimit): the schedules end at
			// different points, so nothing is compared across them
			firstW.stats.Extra["cases-ended-at-the-256-entry-limit"]++
			first.Config["ended_at_inline_limit"] = sc.name
			return first
		}
		if len(res.Violations) > 0 {
			for _, v := range res.Violations {
				if res != first {
					first.fail(viol(v.Sig, "under schedule %q: %s", sc.name, v.Msg))
				}
			}
			first.Config["failing_schedule"] = sc.name
			return first
		}
		// the generated operation list must not depend on the schedule
		var ops []string
		for _, t := range res.Trace {
			if len(t) >= 6 && (t[:6] == "commit" || t[:6] == "reopen" || t[:6] == "dropca") {
				continue
			}
			ops = append(ops, t)
		}
		th := traceHash(nil, ops)
		if si == 0 {
			regs0, trace0 = regs, th
			continue
		}
		if th != trace0 {
			// positions are drawn relative to the slab boundaries of the live tree, so the operation list can only differ
			// when the TREE SHAPE differs between schedules (everything else is drawn from the case PRNG alone)
			first.fail(viol("cache-structure", "under schedule %q the generated operation list (positions follow the slab boundaries of the tree) differs from schedule %q: the shape of the tree depends on what was in the cache", sc.name, schedules[0].name))
			return first
		}
		firstW.stats.Extra["schedules-compared"]++
		if !composite {
			if regsDigest(regs) != regsDigest(regs0) {
				first.fail(viol("cache-registers", "final registers under schedule %q differ from schedule %q: %v", sc.name, schedules[0].name, diffRegs(regs0, regs)))
				first.Config["failing_schedule"] = sc.name
				return first
			}
			firstW.stats.Extra["byte-equal-register-comparisons"]++
		} else {
			// content-only comparison: both register sets were rebuilt cold against the same model in runContainerCase
			if len(regs) != len(regs0) {
				first.fail(viol("cache-registers", "schedule %q leaves %d registers, schedule %q %d", sc.name, len(regs), schedules[0].name, len(regs0)))
				return first
			}
			firstW.stats.Extra["content-equal-register-comparisons"]++
		}
	}
	first.Config["schedules"] = nsched
	first.Config["composite_bucket"] = composite
	firstW.stats.Extra["ledger-reads-under-schedules"] += mutatedDecoded
	first.NonTrivial = firstW.stats.MaxRootSlabs >= 2 && mutatedDecoded > 0
	return first
}

func init() {
	cases := func(q, t int) func(string) int {
		return func(tier string) int {
			if tier == "thorough" {
				return t
			}
			return q
		}
	}
	register(&Prop{
		ID: "C12", Level: "exploration", Run: runC12, Cases: cases(256*3, 256*12), MinNonTrivial: 16,
		Rule: "cases enumerate all 4^4 per-level digest alphabets {1,2,3,large} of an adversarial 4-level digester x collision limits {0,1,2,3,7,255,random} x slab sizes {256,512,1024}; each case is a seeded insert/update/remove/get/has history over 50-600 keys; " +
			"dictionary semantics and the structural walk (inline groups, external groups, last-level lists, digest filing) are checked after EVERY operation; every insert of a NEW key is predicted by the rule 'refused iff (distinct second-level digests under its first-level digest) - 1 >= limit' " +
			"and a refusal must be a fatal collision-limit error that allocates/stores/removes nothing and leaves the count unchanged; updates must always be accepted. " +
			"every 19th case is a COLLAPSE case (paired digests, see C05): two-member external groups dissolve on removal while the root index slab is one child short of full. " +
			"non-trivial = inline group and (external group or last-level list) seen, >=1 predicted refusal observed, >=1 update of an existing key whose digest budget was exhausted accepted (collapse cases: a removal created a slab); distinct by hash(config, operation list)",
		Assumptions: []string{"nested maps use the default digester (the library re-creates them that way); only 4-level digesters are generated", "exploration, not proof"},
		Mandatory:   []string{"collision-limit-refusals", "external_groups_seen", "inline_groups_seen", "max-list-len", "updates-at-exhausted-budget"},
	})
	register(&Prop{
		ID: "C13", Level: "exploration", Run: runC13, Cases: cases(16*40, 16*200), MinNonTrivial: 8,
		Rule: "cases = seeded histories (arrays; maps under the default digester and 3 collision profiles incl. last-level lists); at 6 checkpoints per case every enumeration flavour is compared element-by-element with the model's canonical order " +
			"(arrays: Iterate, IterateReadOnly, IterateRange/IterateReadOnlyRange for all (s,e) when short and slab-boundary-targeted when long, loaded-values, invalid ranges => typed user errors; maps: Iterate, IterateReadOnly, keys, values, read-only keys/values, loaded-values; order = ascending digest vector then insertion sequence), " +
			"then a mutable iteration overwrites the current element / grows the nested container just yielded and must still yield each pre-mutation element once, then on cold copies partially loaded containers must yield an in-order subsequence and bulk pop the exact reverse. " +
			"non-trivial = container with >=3 slabs, partial loads exercised, collision groups present for collision profiles; distinct by hash(config, operation list)",
		Assumptions: []string{"inserting/removing during mutable iteration is documented as unsupported and not generated", "exploration, not proof"},
		Mandatory:   []string{"iterations-checked", "ranges-checked", "invalid-ranges-rejected", "mutating-iterations", "overwrites-during-iteration", "child-mutations-during-iteration", "partial-load-iterations", "cold-single-flavour-iterations", "reverse-pops-checked"},
	})
	register(&Prop{
		ID: "C18", Level: "fault_enumeration", Run: runC18, Cases: cases(16*30, 16*150), MinNonTrivial: 8,
		Rule: "cases = seeded histories in which 25% of the steps are deliberately invalid requests (index = count, count+1, count+2 for Get/Set/Remove, Insert beyond count+1, absent keys next to present ones, inserts beyond the collision limit, undefined slab ids) on root and nested containers; " +
			"each rejection must carry the specific error type AND category (user vs fatal), must issue no store/remove/id allocation (storage proxy), must leave container and ancestors valid (walk + reach after every operation), " +
			"and a twin run that generates but skips the rejected requests must commit byte-identical registers. Fault enumeration: on a cold storage EVERY ledger read, comparator call and hash-input call made by two lookups is failed in turn and must surface as an external error wrapping the injected sentinel. " +
			"non-trivial = >=20 rejected requests on a multi-slab container and >=1 injected callback fault; distinct by hash(config, operation list)",
		Assumptions: []string{"exploration over histories; enumeration is complete only over the call positions of the probed lookups"},
		Mandatory:   []string{"rejected_requests", "twin-register-comparisons", "external-error-injections", "undefined-id-requests", "collision-limit-refusals"},
	})
	register(&Prop{
		ID: "C08", Level: "exploration", Run: runC08, Cases: cases(16*24, 16*100), MinNonTrivial: 8,
		Rule: "each case executes ONE seeded history under 6 schedules of {commit, drop cache, reopen from ledger}: never-until-end, commit every operation, commit+drop-cache every 3, full reopen every 5 (new storage, roots re-obtained by id, child handles re-resolved), drop-cache-only every 2, PRNG mix; " +
			"in every schedule every return value is compared with the model and the structure walked; all schedules end with a commit and the final registers must be byte-identical across schedules (histories without composite-typed maps) or content-identical (cold rebuild equal to the model; composite bucket). " +
			"non-trivial = multi-slab container and slabs were re-read from the ledger under the schedules; distinct by hash(config, operation list)",
		Assumptions: []string{"the composite bucket is decided at case creation (no composite type info is ever created in the byte-equality bucket)", "operations are addressed to containers: root handles survive evictions, handles of nested containers are re-acquired after an eviction or reopen", "exploration, not proof"},
		Mandatory:   []string{"schedules-compared", "byte-equal-register-comparisons", "content-equal-register-comparisons", "ledger-reads-under-schedules"},
	})
}
