package main

import (
	"encoding/json"
	"flag"
	"fmt"
	"hash/fnv"
	"os"
	"os/exec"
	"path/filepath"
	"runtime"
	"runtime/debug"
	"runtime/pprof"
	"sort"
	"strconv"
	"strings"
	"sync"
	"time"
)

// CaseCtx identifies one case of a property's fixed, PRNG-determined case list.
type CaseCtx struct {
	Prop    string
	Tier    string
	Seed    int64 // VERIF_SEED
	Case    int
	Verbose bool
	Dir     string // work directory of this run (cross-process exchange files)
}

// CaseSeed derives the case PRNG seed from (VERIF_SEED, property, case number).
func (c *CaseCtx) CaseSeed() int64 {
	h := fnv.New64a()
	fmt.Fprintf(h, "%d|%s|%d", c.Seed, c.Prop, c.Case)
	return int64(h.Sum64() & 0x7fffffffffffffff)
}

// CaseResult is what one executed case reports.
type CaseResult struct {
	Violations []*Violation
	Trace      []string
	Config     map[string]any
	NonTrivial bool
	Hash       uint64 // hash of configuration + operation list (distinctness)
	Stats      *Stats
	Evals      int // number of evaluations this case stands for (default 1)
	Obs        map[string]int
}

func (r *CaseResult) fail(v *Violation) { r.Violations = append(r.Violations, v) }

func traceHash(cfg map[string]any, trace []string) uint64 {
	h := fnv.New64a()
	b, _ := json.Marshal(cfg)
	_, _ = h.Write(b)
	for _, t := range trace {
		_, _ = h.Write([]byte(t))
		_, _ = h.Write([]byte{0})
	}
	return h.Sum64()
}

// Prop is one registered property check.
type Prop struct {
	ID          string
	Level       string // evidence level
	Rule        string // how cases are generated and what makes one non-trivial
	Assumptions []string
	Cases       func(tier string) int
	Run         func(c *CaseCtx) *CaseResult
	Race        bool // must run under the race-detector build
	Shards      func(tier string) int
	// Post runs in the orchestrator after all shards finished (cross-process comparisons etc.)
	Post func(tier string, seed int64, dir string, ev *Evidence) []*ReplayFile
	// MinNonTrivial: fewer distinct non-trivial cases => inconclusive
	MinNonTrivial int
	// Mandatory behavioural counters: every one must be > 0 over the whole run, else inconclusive.
	Mandatory  []string
	Exhaustive bool
}

var registry = map[string]*Prop{}

func register(p *Prop) { registry[p.ID] = p }

// ShardResult is what a worker writes.
type ShardResult struct {
	Shard       int
	Part        int // a shard is run in several parts when a stalled case had to be taken out (see cmdRun)
	Evaluations int
	NonTrivial  []uint64
	Stats       *Stats
	Samples     []map[string]any
	Violations  []*ReplayFile
	Obs         map[string]int
	Done        bool
}

// ReplayFile is the self-contained description of a failing case.
type ReplayFile struct {
	Property string         `json:"property"`
	Seed     int64          `json:"seed"`
	Tier     string         `json:"tier"`
	Case     int            `json:"case"`
	Sig      string         `json:"signature"`
	Message  string         `json:"message"`
	Config   map[string]any `json:"config,omitempty"`
	Trace    []string       `json:"operations,omitempty"`
	Path     string         `json:"-"`
}

// Evidence mirrors EVIDENCE.schema.json.
type Evidence struct {
	PropertyID  string         `json:"property_id"`
	Tier        string         `json:"tier"`
	Seed        int64          `json:"seed"`
	Level       string         `json:"level"`
	Coverage    map[string]any `json:"coverage"`
	Assumptions []string       `json:"assumptions"`
	WallS       float64        `json:"wall_s"`
	Violations  int            `json:"violations"`
}

type KnownFinding struct {
	Property    string `json:"property"`
	Status      string `json:"status"` // "known" or "fixed"
	Match       string `json:"match"`  // substring of "<signature>: <message>"
	Commit      string `json:"commit,omitempty"`
	Description string `json:"description"`
}

func verifRoot() string {
	if d := os.Getenv("VERIF_ROOT"); d != "" {
		return d
	}
	return "/verif"
}

func loadKnownFindings() []KnownFinding {
	home := os.Getenv("VERIF_HOME")
	if home == "" {
		home = verifRoot()
	}
	b, err := os.ReadFile(filepath.Join(home, "known_findings.json"))
	if err != nil {
		return nil
	}
	var f struct {
		Findings []KnownFinding `json:"findings"`
	}
	if json.Unmarshal(b, &f) != nil {
		return nil
	}
	return f.Findings
}

func matchKnown(kf []KnownFinding, prop string, sig, msg string) *KnownFinding {
	text := sig + ": " + msg
	for i := range kf {
		k := &kf[i]
		if k.Status == "known" && k.Property == prop && k.Match != "" && strings.Contains(text, k.Match) {
			return k
		}
	}
	return nil
}

func main() {
	if len(os.Args) < 2 {
		fmt.Fprintln(os.Stderr, "usage: verif run|worker|replay ...")
		os.Exit(2)
	}
	switch os.Args[1] {
	case "run":
		os.Exit(cmdRun(os.Args[2:]))
	case "worker":
		os.Exit(cmdWorker(os.Args[2:]))
	case "replay":
		os.Exit(cmdReplay(os.Args[2:]))
	case "list":
		ids := make([]string, 0, len(registry))
		for id := range registry {
			ids = append(ids, id)
		}
		sort.Strings(ids)
		for _, id := range ids {
			fmt.Println(id, registry[id].Race)
		}
	default:
		fmt.Fprintln(os.Stderr, "unknown command", os.Args[1])
		os.Exit(2)
	}
}

func envSeed() int64 {
	if s := os.Getenv("VERIF_SEED"); s != "" {
		if v, err := strconv.ParseInt(s, 10, 64); err == nil {
			return v
		}
	}
	return 1
}

// runCase executes one case with panic capture.
func runCase(p *Prop, c *CaseCtx) (res *CaseResult) {
	defer func() {
		if r := recover(); r != nil {
			if res == nil {
				res = &CaseResult{}
			}
			res.fail(viol("panic", "panic inside a library call made with valid arguments: %v\n%s", r, string(debug.Stack())))
		}
	}()
	// every third case reaches its ledgers through the library's own register adapter (LedgerBaseStorage)
	ledgerViaAPI = c.Case%3 == 1
	// every fourth case the ledger keeps / hands out slices without copying them (Ledger.noCopy)
	ledgerNoCopy = c.Case%4 == 2
	res = p.Run(c)
	return res
}

func cmdWorker(args []string) int {
	fs := flag.NewFlagSet("worker", flag.ExitOnError)
	prop := fs.String("prop", "", "")
	tier := fs.String("tier", "quick", "")
	seed := fs.Int64("seed", 1, "")
	shard := fs.Int("shard", 0, "")
	nshards := fs.Int("nshards", 1, "")
	dir := fs.String("dir", ".", "")
	part := fs.Int("part", 0, "")
	from := fs.Int("from", 0, "skip the cases of this shard below this number")
	only := fs.Int("only", -1, "run just this case")
	_ = fs.Parse(args)
	p := registry[*prop]
	if p == nil {
		fmt.Fprintln(os.Stderr, "unknown property", *prop)
		return 2
	}
	if f := os.Getenv("VERIF_CPUPROFILE"); f != "" {
		if fh, err := os.Create(f); err == nil {
			_ = pprof.StartCPUProfile(fh)
			defer pprof.StopCPUProfile()
		}
	}
	total := p.Cases(*tier)
	sr := &ShardResult{Shard: *shard, Part: *part, Stats: newStats(), Obs: map[string]int{}}
	seen := map[uint64]bool{}
	testHang := -1
	if v, err := strconv.Atoi(os.Getenv("VERIF_TEST_HANG_CASE")); err == nil {
		testHang = v // self-test of the stall detection: this case never returns (only the first time when ..._ONCE is set)
	}
	for i := *shard; i < total; i += *nshards {
		if *only >= 0 {
			if i != *shard {
				break
			}
			i = *only
		} else if i < *from {
			continue
		}
		fmt.Printf("CASE %d\n", i) // unbuffered: survives a process-fatal error
		if i == testHang && !(os.Getenv("VERIF_TEST_HANG_ONCE") != "" && *only >= 0) {
			for {
				time.Sleep(time.Hour)
			}
		}
		c := &CaseCtx{Prop: *prop, Tier: *tier, Seed: *seed, Case: i, Dir: *dir}
		res := runCase(p, c)
		ev := res.Evals
		if ev == 0 {
			ev = 1
		}
		sr.Evaluations += ev
		if res.Stats != nil {
			sr.Stats.merge(res.Stats)
		}
		if n := int(ledgerAPICalls.Swap(0)); n > 0 {
			sr.Obs["register-accesses-through-LedgerBaseStorage"] += n
			sr.Obs["cases-through-LedgerBaseStorage"]++
		}
		for k, v := range res.Obs {
			mergeObs(sr.Obs, k, v)
		}
		if res.NonTrivial && !seen[res.Hash] {
			seen[res.Hash] = true
			sr.NonTrivial = append(sr.NonTrivial, res.Hash)
		}
		if len(sr.Samples) < 2 && (res.NonTrivial || i+*nshards >= total) {
			tr := res.Trace
			if len(tr) > 40 {
				tr = tr[:40]
			}
			sr.Samples = append(sr.Samples, map[string]any{"case": i, "config": res.Config, "first_operations": tr, "operations_total": len(res.Trace)})
		}
		for _, v := range res.Violations {
			tr := res.Trace
			if len(tr) > 400 {
				tr = tr[len(tr)-400:]
			}
			sr.Violations = append(sr.Violations, &ReplayFile{Property: *prop, Seed: *seed, Tier: *tier, Case: i, Sig: v.Sig, Message: v.Msg, Config: res.Config, Trace: tr})
		}
		if len(res.Violations) > 0 {
			// keep what was found even if this process is later killed by the watchdog
			_ = writeShard(*dir, sr)
		}
	}
	sr.Done = true
	if err := writeShard(*dir, sr); err != nil {
		fmt.Fprintln(os.Stderr, "cannot write shard result:", err)
		return 2
	}
	return 0
}

func writeShard(dir string, sr *ShardResult) error {
	b, _ := json.Marshal(sr)
	tmp := filepath.Join(dir, fmt.Sprintf("shard-%d-p%d.json.tmp", sr.Shard, sr.Part))
	if err := os.WriteFile(tmp, b, 0o644); err != nil {
		return err
	}
	return os.Rename(tmp, filepath.Join(dir, fmt.Sprintf("shard-%d-p%d.json", sr.Shard, sr.Part)))
}

func writeReplay(rf *ReplayFile) string {
	dir := filepath.Join(verifRoot(), "replays")
	_ = os.MkdirAll(dir, 0o755)
	name := fmt.Sprintf("%s-s%d-%s-c%d.json", rf.Property, rf.Seed, rf.Tier, rf.Case)
	path := filepath.Join(dir, name)
	b, _ := json.MarshalIndent(rf, "", " ")
	_ = os.WriteFile(path, b, 0o644)
	rf.Path = path
	return path
}

func cmdRun(args []string) int {
	fs := flag.NewFlagSet("run", flag.ExitOnError)
	prop := fs.String("prop", "", "")
	tier := fs.String("tier", "quick", "")
	seed := fs.Int64("seed", envSeed(), "")
	_ = fs.Parse(args)
	if t := os.Getenv("VERIF_TIER"); t == "quick" || t == "thorough" {
		*tier = t
	}
	p := registry[*prop]
	if p == nil {
		fmt.Fprintln(os.Stderr, "unknown property", *prop)
		return 2
	}
	start := time.Now()
	dir := filepath.Join(verifRoot(), "work", fmt.Sprintf("%s-%s-s%d", *prop, *tier, *seed))
	_ = os.RemoveAll(dir)
	if err := os.MkdirAll(dir, 0o755); err != nil {
		fmt.Fprintln(os.Stderr, err)
		return 2
	}
	nshards := runtime.NumCPU()
	if p.Shards != nil {
		nshards = p.Shards(*tier)
	}
	total := p.Cases(*tier)
	if nshards > total {
		nshards = total
	}
	if nshards < 1 {
		nshards = 1
	}
	watchdog := 20 * time.Minute
	if *tier == "thorough" {
		watchdog = 4 * time.Hour
	}
	if s := os.Getenv("VERIF_WATCHDOG_MIN"); s != "" {
		if v, err := strconv.Atoi(s); err == nil {
			watchdog = time.Duration(v) * time.Minute
		}
	}

	// A case that stalls (its "CASE n" line stays the last line of the worker's log for longer than caseLimit - normal
	// cases take seconds) is handled like every other "never returns" observation of this harness, in two stages: the
	// worker is stopped, the case is run again ALONE in a fresh process with twice the limit; only if it stalls again it
	// is reported (violation "hang"); otherwise the shard continues behind it. The overall watchdog stays as the
	// inconclusive outcome.
	caseLimit := 8 * time.Minute
	if *tier == "thorough" {
		caseLimit = 40 * time.Minute
	}
	if s := os.Getenv("VERIF_CASE_LIMIT_SEC"); s != "" {
		if v, err := strconv.Atoi(s); err == nil {
			caseLimit = time.Duration(v) * time.Second
		}
	}
	type partOutcome struct {
		part     int
		timedOut bool // overall watchdog
		stalled  int  // case that stalled (-1: none)
		exit     int
	}
	lastCase := func(logPath string) int {
		logb, _ := os.ReadFile(logPath)
		last := -1
		for _, line := range strings.Split(string(logb), "\n") {
			if strings.HasPrefix(line, "CASE ") {
				if v, e := strconv.Atoi(strings.TrimSpace(line[5:])); e == nil {
					last = v
				}
			}
		}
		return last
	}
	deadline := time.Now().Add(watchdog)
	runPart := func(i, part, from, only int, limit time.Duration) partOutcome {
		out := partOutcome{part: part, stalled: -1}
		logPath := filepath.Join(dir, fmt.Sprintf("shard-%d-p%d.log", i, part))
		logf, _ := os.Create(logPath)
		defer logf.Close()
		cmd := exec.Command(os.Args[0], "worker", "--prop", *prop, "--tier", *tier, "--seed", fmt.Sprint(*seed),
			"--shard", fmt.Sprint(i), "--nshards", fmt.Sprint(nshards), "--dir", dir,
			"--part", fmt.Sprint(part), "--from", fmt.Sprint(from), "--only", fmt.Sprint(only))
		cmd.Stdout = logf
		cmd.Stderr = logf
		cmd.Env = append(os.Environ(), "GOTRACEBACK=all",
			"GORACE=halt_on_error=0 log_path="+filepath.Join(dir, fmt.Sprintf("race-%d-p%d", i, part)))
		if err := cmd.Start(); err != nil {
			out.exit = -1
			return out
		}
		done := make(chan error, 1)
		go func() { done <- cmd.Wait() }()
		kill := func() {
			_ = cmd.Process.Signal(os.Interrupt)
			time.Sleep(200 * time.Millisecond)
			_ = cmd.Process.Kill()
			<-done
		}
		seenCase, seenAt := -2, time.Now()
		tick := time.NewTicker(time.Second)
		defer tick.Stop()
		for {
			select {
			case err := <-done:
				if err != nil {
					out.exit = 1
					if ee, ok := err.(*exec.ExitError); ok {
						out.exit = ee.ExitCode()
					}
				}
				return out
			case <-tick.C:
				if c := lastCase(logPath); c != seenCase {
					seenCase, seenAt = c, time.Now()
				}
				if time.Now().After(deadline) {
					kill()
					out.timedOut = true
					return out
				}
				if seenCase >= 0 && time.Since(seenAt) > limit {
					kill()
					out.stalled = seenCase
					return out
				}
			}
		}
	}
	parts := make([][]partOutcome, nshards)
	hangs := make([][]int, nshards)
	firstStage := make([]int, nshards)
	var wg sync.WaitGroup
	for i := 0; i < nshards; i++ {
		wg.Add(1)
		go func(i int) {
			defer wg.Done()
			part, from := 0, 0
			for {
				o := runPart(i, part, from, -1, caseLimit)
				parts[i] = append(parts[i], o)
				if o.stalled < 0 {
					return
				}
				n := o.stalled
				part++
				o2 := runPart(i, part, 0, n, 2*caseLimit)
				parts[i] = append(parts[i], o2)
				if o2.stalled >= 0 {
					hangs[i] = append(hangs[i], n)
					return
				}
				if o2.timedOut || o2.exit != 0 {
					return
				}
				firstStage[i]++
				part++
				from = n + 1
			}
		}(i)
	}
	wg.Wait()

	// merge
	ev := &Evidence{PropertyID: *prop, Tier: *tier, Seed: *seed, Level: p.Level, Coverage: map[string]any{}, Assumptions: p.Assumptions}
	stats := newStats()
	obs := map[string]int{}
	evals := 0
	nontrivial := map[uint64]bool{}
	var samples []map[string]any
	var violations []*ReplayFile
	inconclusive := ""
	for i := 0; i < nshards; i++ {
		for _, n := range hangs[i] {
			violations = append(violations, &ReplayFile{Property: *prop, Seed: *seed, Tier: *tier, Case: n, Sig: "hang",
				Message: fmt.Sprintf("case %d did not finish: its worker stalled for %v, and the case run again alone in a fresh process stalled for %v (cases normally take seconds); the remaining cases of shard %d were not run", n, caseLimit, 2*caseLimit, i)})
		}
		if firstStage[i] > 0 {
			mergeObs(obs, "case-stalls-not-confirmed-by-the-second-stage", firstStage[i])
		}
	}
	for i := 0; i < nshards; i++ {
		for _, po := range parts[i] {
			b, err := os.ReadFile(filepath.Join(dir, fmt.Sprintf("shard-%d-p%d.json", i, po.part)))
			var sr ShardResult
			if err == nil {
				err = json.Unmarshal(b, &sr)
			}
			if err == nil && !sr.Done {
				// partial result of a worker that did not finish: keep the violations it had already found
				violations = append(violations, sr.Violations...)
			}
			if err != nil || !sr.Done {
				if po.stalled >= 0 {
					continue // taken care of by the second stage
				}
				// the worker died: find the last case header in its log
				logb, _ := os.ReadFile(filepath.Join(dir, fmt.Sprintf("shard-%d-p%d.log", i, po.part)))
				last := -1
				for _, line := range strings.Split(string(logb), "\n") {
					if strings.HasPrefix(line, "CASE ") {
						if v, e := strconv.Atoi(strings.TrimSpace(line[5:])); e == nil {
							last = v
						}
					}
				}
				tail := string(logb)
				if len(tail) > 6000 {
					tail = tail[len(tail)-6000:]
				}
				if po.timedOut {
					inconclusive = fmt.Sprintf("shard %d hit the wall-clock watchdog in case %d", i, last)
					if p.ID == "C19" {
						violations = append(violations, &ReplayFile{Property: *prop, Seed: *seed, Tier: *tier, Case: last, Sig: "hang", Message: "worker did not finish within the watchdog: " + tail})
					}
					continue
				}
				violations = append(violations, &ReplayFile{Property: *prop, Seed: *seed, Tier: *tier, Case: last, Sig: "crash",
					Message: fmt.Sprintf("worker process died (exit %d) while running case %d; log tail:\n%s", po.exit, last, tail)})
				continue
			}
			evals += sr.Evaluations
			stats.merge(sr.Stats)
			for k, v := range sr.Obs {
				mergeObs(obs, k, v)
			}
			for _, h := range sr.NonTrivial {
				nontrivial[h] = true
			}
			if len(samples) < 3 {
				samples = append(samples, sr.Samples...)
			}
			violations = append(violations, sr.Violations...)
		}
	}
	if len(samples) > 3 {
		samples = samples[:3]
	}
	// race logs
	raceReports := 0
	if matches, _ := filepath.Glob(filepath.Join(dir, "race-*")); len(matches) > 0 {
		for _, m := range matches {
			b, _ := os.ReadFile(m)
			n := strings.Count(string(b), "WARNING: DATA RACE")
			raceReports += n
			if n > 0 {
				txt := string(b)
				if len(txt) > 6000 {
					txt = txt[:6000]
				}
				violations = append(violations, &ReplayFile{Property: *prop, Seed: *seed, Tier: *tier, Case: -1, Sig: "race", Message: "race detector report:\n" + txt})
			}
		}
	}
	if p.Race {
		obs["race-reports"] = raceReports
	}

	ev.Coverage["evaluations"] = evals
	ev.Coverage["distinct_nontrivial"] = len(nontrivial)
	ev.Coverage["rule"] = p.Rule
	ev.Coverage["samples"] = samples
	ev.Coverage["operations_by_kind"] = stats.Ops
	ev.Coverage["observed"] = statsSummary(stats, obs)
	if p.Exhaustive {
		ev.Coverage["exhaustive"] = true
	}
	if p.Post != nil {
		violations = append(violations, p.Post(*tier, *seed, dir, ev)...)
	}

	// mandatory behavioural counters
	summary := ev.Coverage["observed"].(map[string]int)
	for _, m := range p.Mandatory {
		if summary[m] == 0 && inconclusive == "" && len(violations) == 0 {
			inconclusive = "mandatory behaviour never observed: " + m
		}
	}
	if len(nontrivial) < p.MinNonTrivial && inconclusive == "" && len(violations) == 0 {
		inconclusive = fmt.Sprintf("only %d distinct non-trivial cases (< %d)", len(nontrivial), p.MinNonTrivial)
	}

	// classify violations
	kf := loadKnownFindings()
	exit := 0
	real := 0
	printedKnown := map[string]bool{}
	sort.SliceStable(violations, func(i, j int) bool { return violations[i].Case < violations[j].Case })
	for _, v := range violations {
		if k := matchKnown(kf, v.Property, v.Sig, v.Message); k != nil {
			if !printedKnown[k.Match] {
				fmt.Printf("KNOWN-FINDING: property=%s %s\n", v.Property, k.Description)
				printedKnown[k.Match] = true
			}
			continue
		}
		real++
		if real <= 10 {
			path := writeReplay(v)
			fmt.Printf("VIOLATION property=%s replay=%s\n", v.Property, path)
			msg := v.Message
			if len(msg) > 1500 {
				msg = msg[:1500] + "..."
			}
			fmt.Printf("  case %d [%s] %s\n", v.Case, v.Sig, msg)
		}
		exit = 1
	}
	ev.Violations = real
	if inconclusive != "" {
		ev.Coverage["explanation"] = "INCONCLUSIVE: " + inconclusive
	}
	ev.WallS = time.Since(start).Seconds()
	writeEvidence(ev)
	if exit == 0 && inconclusive != "" {
		fmt.Printf("INCONCLUSIVE property=%s reason=%s\n", *prop, inconclusive)
		return 2
	}
	if exit == 0 {
		fmt.Printf("OK property=%s tier=%s seed=%d evaluations=%d distinct_nontrivial=%d wall=%.1fs\n", *prop, *tier, *seed, evals, len(nontrivial), ev.WallS)
		_ = os.RemoveAll(dir)
	}
	return exit
}

// mergeObs adds counters; keys starting with "max-" or "max_" keep the maximum instead.
func mergeObs(dst map[string]int, k string, v int) {
	if strings.HasPrefix(k, "max-") || strings.HasPrefix(k, "max_") {
		if v > dst[k] {
			dst[k] = v
		}
		return
	}
	dst[k] += v
}

func statsSummary(s *Stats, obs map[string]int) map[string]int {
	m := map[string]int{
		"slabs_created":              s.SlabsCreated,
		"slabs_removed":              s.SlabsRemoved,
		"ops_that_created_slabs":     s.Splits,
		"ops_that_removed_slabs":     s.Merges,
		"inline_to_standalone_flips": s.InlineToStand,
		"standalone_to_inline_flips": s.StandToInline,
		"commits":                    s.Commits,
		"cold_reopens":               s.ColdReopens,
		"crash_points":               s.CrashPoints,
		"tree_walks":                 s.Walks,
		"api_deep_compares":          s.DeepCompares,
		"inrepo_verifier_runs":       s.RefVerifies,
		"reach_checks":               s.ReachChecks,
		"byte_level_checks":          s.SizeChecks,
		"registers_checked":          s.RegsChecked,
		"max_slabs_in_one_container": s.MaxRootSlabs,
		"max_tree_depth":             s.MaxDepth,
		"max_children_per_index":     s.MaxChildren,
		"rejected_requests":          s.Rejected,
		"slabs_near_upper_bound":     s.NearMax,
		"slabs_near_lower_bound":     s.NearMin,
		"external_groups_seen":       s.ExtGroupsSeen,
		"inline_groups_seen":         s.InlineGroupsSeen,
		"large_value_slabs_seen":     s.LargeValuesSeen,
		"compact_map_candidates":     s.CompactSeen,
	}
	for k, v := range s.Extra {
		m[k] = v
	}
	for k, v := range obs {
		m[k] = v
	}
	return m
}

func writeEvidence(ev *Evidence) {
	if ev.Assumptions == nil {
		ev.Assumptions = []string{}
	}
	if _, ok := ev.Coverage["samples"]; !ok || ev.Coverage["samples"] == nil {
		ev.Coverage["samples"] = []map[string]any{}
	}
	dir := filepath.Join(verifRoot(), "evidence")
	_ = os.MkdirAll(dir, 0o755)
	b, _ := json.MarshalIndent(ev, "", " ")
	_ = os.WriteFile(filepath.Join(dir, ev.PropertyID+".json"), append(b, '\n'), 0o644)
}

func cmdReplay(args []string) int {
	if len(args) < 1 {
		fmt.Fprintln(os.Stderr, "usage: verif replay <file>")
		return 2
	}
	b, err := os.ReadFile(args[0])
	if err != nil {
		fmt.Fprintln(os.Stderr, err)
		return 2
	}
	var rf ReplayFile
	if err := json.Unmarshal(b, &rf); err != nil {
		fmt.Fprintln(os.Stderr, err)
		return 2
	}
	p := registry[rf.Property]
	if p == nil || rf.Case < 0 {
		fmt.Fprintln(os.Stderr, "replay file does not name a replayable case")
		return 2
	}
	c := &CaseCtx{Prop: rf.Property, Tier: rf.Tier, Seed: rf.Seed, Case: rf.Case, Verbose: true}
	res := runCase(p, c)
	for _, t := range res.Trace {
		fmt.Println("  op:", t)
	}
	if len(res.Violations) == 0 {
		fmt.Println("replay: no monitor fired")
		return 0
	}
	for _, v := range res.Violations {
		fmt.Printf("VIOLATION property=%s replay=%s\n  [%s] %s\n", rf.Property, args[0], v.Sig, v.Msg)
	}
	return 1
}
