package main

import (
	"fmt"

	"github.com/onflow/atree"
)

// allLive returns the live roots followed by the detached containers.
func (w *World) allLive() []*Node {
	out := make([]*Node, 0, len(w.roots)+len(w.detached))
	out = append(out, w.roots...)
	out = append(out, w.detached...)
	return out
}

// AfterOp runs the periodic monitors selected by w.mon.
func (w *World) AfterOp() error {
	if len(w.led.QuietViolations) > 0 {
		return viol("quiet", "%s", w.led.QuietViolations[0])
	}
	k := w.opCount
	if w.mon.TreeEvery > 0 && k%w.mon.TreeEvery == 0 {
		if err := w.CheckTree(w.mon.ReachEvery > 0 && k%w.mon.ReachEvery == 0); err != nil {
			return err
		}
	}
	if w.mon.DeepEvery > 0 && k%w.mon.DeepEvery == 0 {
		if err := w.CheckDeep(); err != nil {
			return err
		}
	}
	if w.mon.RefEvery > 0 && k%w.mon.RefEvery == 0 {
		if err := w.CheckRef(); err != nil {
			return err
		}
	}
	if w.mon.DirtyEvery > 0 && k%w.mon.DirtyEvery == 0 {
		if err := w.CheckDirty(); err != nil {
			return err
		}
	}
	if w.mon.SizeEvery > 0 && k%w.mon.SizeEvery == 0 {
		if err := w.CheckSizes(); err != nil {
			return err
		}
	}
	return nil
}

// CheckTree is M-tree + structural M-deep (+ optionally M-reach) on the warm storage.
func (w *World) CheckTree(reach bool) error {
	wk := NewWalker(liveGetter(w.ps), w.ps, w.cb)
	wk.Inline = make(map[atree.ValueID]bool)
	for i, n := range w.allLive() {
		if err := w.handle(n); err != nil {
			return err
		}
		id := rootID(n)
		if id == atree.SlabIDUndefined {
			return viol("tree", "live root / detached container %s reports no slab id (flagged inlined)", n)
		}
		if valueIDOf(id) != n.VID {
			return viol("root-id", "root slab id of %s changed: now %s, value id at creation %s", n, id, n.VID)
		}
		before := wk.Stats.Slabs
		wk.wantLeaves = i == 0
		if err := wk.WalkRootID(id, n, n.Dig); err != nil {
			return viol("tree", "%v", err)
		}
		if s := wk.Stats.Slabs - before; s > w.stats.MaxRootSlabs {
			w.stats.MaxRootSlabs = s
		}
	}
	w.stats.Walks++
	w.noteTree(wk)
	if reach {
		if err := w.checkReachWarm(wk); err != nil {
			return err
		}
	}
	return nil
}

func (w *World) noteTree(wk *Walker) {
	s := wk.Stats
	if s.Depth > w.stats.MaxDepth {
		w.stats.MaxDepth = s.Depth
	}
	if s.MaxChildren > w.stats.MaxChildren {
		w.stats.MaxChildren = s.MaxChildren
	}
	w.stats.NearMax += s.NearMax
	w.stats.NearMin += s.NearMin
	w.stats.ExtGroupsSeen += s.ExternalGroups
	w.stats.InlineGroupsSeen += s.InlineGroups
	w.stats.LargeValuesSeen += s.LargeValues
	w.stats.CompactSeen += s.CompactCand
	if s.MaxListLen > w.stats.Extra["max-list-len"] {
		w.stats.Extra["max-list-len"] = s.MaxListLen
	}
	if wk.Inline != nil {
		for vid, in := range wk.Inline {
			if was, ok := w.lastInline[vid]; ok && was != in {
				if in {
					w.stats.StandToInline++
				} else {
					w.stats.InlineToStand++
				}
			}
		}
		w.lastInline = wk.Inline
	}
	if wk.RootLeafCounts != nil {
		w.bounds = w.bounds[:0]
		acc := uint64(0)
		for _, c := range wk.RootLeafCounts {
			acc += uint64(c)
			w.bounds = append(w.bounds, acc)
		}
	}
}

// checkReachWarm: every id the storage resolves must have been reached exactly once from the live roots.
func (w *World) checkReachWarm(wk *Walker) error {
	w.stats.ReachChecks++
	for id := range w.st.Universe {
		slab, found, err := w.ps.Retrieve(id)
		if err != nil {
			return viol("reach", "retrieving %s failed: %v", id, err)
		}
		if !found || slab == nil {
			continue
		}
		switch wk.Visited[id] {
		case 1:
		case 0:
			return viol("reach-leak", "slab %s (%T) is in storage but not reachable from any live root", id, slab)
		default:
			return viol("reach-double", "slab %s is referenced %d times", id, wk.Visited[id])
		}
	}
	for id, c := range wk.Visited {
		if c > 1 {
			return viol("reach-double", "slab %s is referenced %d times", id, c)
		}
	}
	return nil
}

// CheckDeep is the API-based M-deep on fresh handles (access + iteration).
func (w *World) CheckDeep() error {
	w.stats.DeepCompares++
	c := &cmpCtx{storage: w.st, cb: w.cb}
	for _, n := range w.allLive() {
		if err := w.handle(n); err != nil {
			return err
		}
		v, err := w.freshRoot(n, w.st)
		if err != nil {
			return err
		}
		if err := c.valueEqualsNode(v, n, n.String()); err != nil {
			return viol("deep", "%v", err)
		}
	}
	return nil
}

func (w *World) freshRoot(n *Node, st atree.SlabStorage) (atree.Value, error) {
	id := rootID(n)
	if n.Kind == KArr {
		a, err := atree.NewArrayWithRootID(st, id)
		if err != nil {
			return nil, viol("reopen", "NewArrayWithRootID(%s) failed: %v", id, err)
		}
		return a, nil
	}
	m, err := atree.NewMapWithRootID(st, id, w.builderFor(n))
	if err != nil {
		return nil, viol("reopen", "NewMapWithRootID(%s) failed: %v", id, err)
	}
	return m, nil
}

// CheckRef runs the in-repo verifiers as a secondary oracle.
func (w *World) CheckRef() error {
	w.stats.RefVerifies++
	for _, n := range w.allLive() {
		if err := w.handle(n); err != nil {
			return err
		}
		v, err := w.freshRoot(n, w.st)
		if err != nil {
			return err
		}
		switch x := v.(type) {
		case *atree.Array:
			if err := atree.VerifyArray(x, n.Addr, n.TI, compareTypeInfo, w.cb.HashInput, true); err != nil {
				return viol("ref-verify", "VerifyArray(%s): %v", n, err)
			}
		case *atree.OrderedMap:
			if err := atree.VerifyMap(x, n.Addr, n.TI, compareTypeInfo, w.cb.HashInput, true); err != nil {
				return viol("ref-verify", "VerifyMap(%s): %v", n, err)
			}
		}
	}
	return nil
}

// CheckCold: a brand-new storage over a copy of the registers must rebuild every given root equal to
// its model (API-based M-cold), the decoded registers must pass the structural monitor (M-reg), and
// the register set must be exactly the set reachable from the roots (M-reach on registers).
func (w *World) CheckCold(regs map[atree.SlabID][]byte, roots []*Node, rootIDs []atree.SlabID, models []*Node, reach bool) error {
	w.stats.ColdReopens++
	led := NewLedgerFrom(regs, nil)
	ps := newStorage(led)
	c := &cmpCtx{storage: ps, cb: w.cb}
	wk := NewWalker(registerGetter(regs), ps, w.cb)
	for i, n := range roots {
		var v atree.Value
		if n.Kind == KArr {
			a, err := atree.NewArrayWithRootID(ps, rootIDs[i])
			if err != nil {
				return viol("cold", "cold NewArrayWithRootID(%s) failed: %v", rootIDs[i], err)
			}
			v = a
		} else {
			m, err := atree.NewMapWithRootID(ps, rootIDs[i], w.builderFor(n))
			if err != nil {
				return viol("cold", "cold NewMapWithRootID(%s) failed: %v", rootIDs[i], err)
			}
			v = m
		}
		if err := c.valueEqualsNode(v, models[i], "cold:"+n.String()); err != nil {
			return viol("cold", "%v", err)
		}
		if err := wk.WalkRootID(rootIDs[i], models[i], n.Dig); err != nil {
			return viol("cold-tree", "%v", err)
		}
	}
	w.stats.RegsChecked += len(regs)
	if reach {
		for id := range regs {
			switch wk.Visited[id] {
			case 1:
			case 0:
				return viol("reach-leak", "register %s is not reachable from any live root", id)
			default:
				return viol("reach-double", "register %s is referenced %d times", id, wk.Visited[id])
			}
		}
	}
	if len(led.QuietViolations) > 0 {
		return viol("quiet", "cold read wrote to the ledger: %s", led.QuietViolations[0])
	}
	return nil
}

// cloneModel deep-copies the model (without handles) for snapshots taken at commit time.
func cloneModel(n *Node) *Node {
	if n == nil {
		return nil
	}
	c := &Node{Kind: n.Kind, U: n.U, S: n.S, TI: n.TI, VID: n.VID, Addr: n.Addr, Dig: n.Dig, nid: n.nid, seq: n.seq}
	switch n.Kind {
	case KSome:
		c.Inner = cloneModel(n.Inner)
	case KArr:
		c.Elems = make([]*Node, len(n.Elems))
		for i, e := range n.Elems {
			c.Elems[i] = cloneModel(e)
			if cc := c.Elems[i].container(); cc != nil {
				cc.Parent = c
			}
		}
	case KMap:
		c.M = make(map[string]*Entry, len(n.M))
		for k, e := range n.M {
			ne := &Entry{Key: cloneModel(e.Key), Val: cloneModel(e.Val), Seq: e.Seq}
			if cc := ne.Val.container(); cc != nil {
				cc.Parent = c
			}
			c.M[k] = ne
		}
	}
	return c
}

func describeRoots(roots []*Node) string {
	s := ""
	for _, r := range roots {
		s += fmt.Sprintf("%s ", r)
	}
	return s
}
