package main

import (
	"bytes"
	"errors"
	"fmt"
	"hash/fnv"
	"math/rand"
	"os"
	"path/filepath"
	"runtime"
	"sort"
	"strings"
	"sync"
	"sync/atomic"
	"time"

	"github.com/onflow/atree"
	tu "github.com/onflow/atree/test_utils"
)

// ---------------------------------------------------------------------------------------------
// C04: determinism of the ledger state

type c04Variant struct {
	workers int
	procs   int
	jitter  bool
	gcFirst bool
	warmup  bool
}

func (v c04Variant) String() string {
	return fmt.Sprintf("workers=%d gomaxprocs=%d jitter=%v gc-first=%v warmup=%v", v.workers, v.procs, v.jitter, v.gcFirst, v.warmup)
}

type c04Result struct {
	commitLogs [][]LedgerCall // writes/deletes of each commit, in issue order
	regs       map[atree.SlabID][]byte
	trace      []string
	seeds      []uint64
}

var c04PoolProbes atomic.Int64

// c04Run executes history h under one variant.
func c04Run(hseed int64, relaxed bool, v c04Variant) (*c04Result, error) {
	old := runtime.GOMAXPROCS(v.procs)
	defer runtime.GOMAXPROCS(old)
	if v.warmup {
		// unrelated work first: populates the process-wide pools with used objects
		w := NewWorld(hseed^0x77, addrOf(99, 0))
		m, err := w.NewRootMap(w.addr, TI{ID: 1}, nil)
		if err == nil {
			for i := 0; i < 60 && err == nil; i++ {
				err = w.OpMapSet(m, &Node{Kind: KU64, U: uint64(i)}, &Node{Kind: KU64, U: 1})
			}
			w.led.inCommit = true
			_ = w.ps.FastCommit(4)
		}
		// ... including commits that FAIL while encoding (a map and an array holding a value whose Encode returns an
		// error): whatever a failing encoder took from the process-wide pools must have gone back exactly once, or
		// the many-worker commits of the measured history below write bytes that depend on who shares a buffer with whom
		for round := 0; round < 3; round++ {
			wf := NewWorld(hseed^0x99, addrOf(98, 0))
			bm, err := atree.NewMap(wf.st, wf.addr, atree.NewDefaultDigesterBuilder(), TI{ID: 4})
			ba, err2 := atree.NewArray(wf.st, wf.addr, TI{ID: 4})
			if err == nil && err2 == nil {
				for i := 0; i < 40; i++ {
					_, _ = bm.Set(wf.cb.Compare, wf.cb.HashInput, tu.Uint64Value(uint64(i)), BlobValue{ID: uint64(1000 + i), Pad: 30})
					_ = ba.Append(BlobValue{ID: uint64(2000 + i), Pad: 30})
				}
				blobEncodeHook.Store(func(id uint64) error {
					if id == 1007 || id == 2011 {
						return ErrBlob
					}
					return nil
				})
				wf.led.inCommit = true
				_ = wf.ps.FastCommit(3)
				_ = wf.ps.NondeterministicFastCommit(3)
				blobEncodeHook.Store((func(uint64) error)(nil))
			}
			// ... and commits that fail because a type info cannot be encoded: of a root array, of a root map, of an
			// inlined child array and of an inlined child map (four different exits of the slab encoders)
			const badType = 77771
			for shape := 0; shape < 4; shape++ {
				wt := NewWorld(hseed^0xaa, addrOf(97, 0))
				rootTI, childTI := TI{ID: 6}, TI{ID: 7}
				switch shape {
				case 0, 1:
					rootTI = TI{ID: badType}
				default:
					childTI = TI{ID: badType}
				}
				var root *Node
				var err error
				if shape%2 == 0 {
					root, err = wt.NewRootArray(wt.addr, rootTI)
				} else {
					root, err = wt.NewRootMap(wt.addr, rootTI, nil)
				}
				if err != nil {
					continue
				}
				wt.AddRoot(root)
				for i := 0; i < 12 && err == nil; i++ {
					val := &Node{Kind: KU64, U: uint64(i)}
					if shape >= 2 && i%4 == 1 {
						var cerr error
						if shape == 2 {
							val, cerr = wt.NewRootArray(wt.addr, childTI)
						} else {
							val, cerr = wt.NewRootMap(wt.addr, childTI, nil)
						}
						if cerr != nil {
							break
						}
					}
					if root.Kind == KArr {
						err = wt.OpArrayAppend(root, val)
					} else {
						err = wt.OpMapSet(root, &Node{Kind: KU64, U: uint64(i)}, val)
					}
				}
				tiFailID.Store(badType)
				wt.led.inCommit = true
				_ = wt.ps.FastCommit(3)
				_ = wt.ps.NondeterministicFastCommit(2)
				tiFailID.Store(0)
			}
		}
		// POOL PROBE: straight after the failures (before a garbage collection empties the pools) a many-worker commit of a
		// fresh state runs with yields inside Encode, so that encoder goroutines hold buffers while others start; a buffer
		// that went back to its pool twice is handed to two workers and the registers differ from the sequential reference
		for _, rel := range []bool{false, true} {
			wp, _, err := c16State(hseed^0x5a5a, 60)
			if err != nil {
				return nil, err
			}
			want, err := sequentialCommit(wp.ps, wp.led.Snapshot())
			if err != nil {
				return nil, err
			}
			var mu sync.Mutex
			blobEncodeHook.Store(jitterHook(rand.New(rand.NewSource(hseed^0x31)), &mu, 2))
			wp.led.inCommit = true
			if rel {
				err = wp.ps.NondeterministicFastCommit(16)
			} else {
				err = wp.ps.FastCommit(16)
			}
			wp.led.inCommit = false
			blobEncodeHook.Store((func(uint64) error)(nil))
			if err != nil {
				return nil, viol("pool-probe", "a 16-worker commit right after encoding failures elsewhere in the process failed: %v", err)
			}
			if regsDigest(wp.led.Snapshot()) != regsDigest(want) {
				return nil, viol("pool-probe", "a 16-worker commit (relaxed %v) right after encoding failures elsewhere in the process differs from the single-goroutine encoding of the same slabs: %v", rel, diffRegs(want, wp.led.Snapshot()))
			}
			c04PoolProbes.Add(1)
		}
	}
	if v.gcFirst {
		runtime.GC()
		runtime.GC()
	}
	atree.VerifSetThreshold(512)
	defer atree.VerifSetThreshold(1024)
	w := NewWorld(hseed, addrOf(1, 0))
	w.prof.PContainer = 22
	w.prof.MaxDepth = 3
	w.prof.Composite = true
	w.prof.PSome = 15
	w.prof.LongTypes = hseed%3 == 0
	if hseed%5 == 2 {
		// the default digester (process-wide digester pool) meeting first-level collisions: a hash-input provider that
		// covers only part of the key
		w.cb.HipClasses = 25
	}
	owners := []atree.Address{addrOf(1, 0), addrOf(2, 0), addrOf(1, 0xF0), addrOf(0, 0x01)}
	// slab indexes start just below multi-byte boundaries so that ordering by (owner, index) is exercised
	w.led.index[owners[0]] = 250
	w.led.index[owners[1]] = 65530
	w.led.index[owners[2]] = 0
	w.led.index[owners[3]] = 1<<32 - 4
	if v.jitter {
		r := rand.New(rand.NewSource(hseed ^ int64(v.workers)))
		w.led.Jitter = func() {
			if r.Intn(3) == 0 {
				runtime.Gosched()
			}
		}
	}
	var roots []*Node
	for i, a := range owners {
		var n *Node
		var err error
		if i%2 == 0 {
			n, err = w.NewRootArray(a, w.newTI(false))
		} else {
			n, err = w.NewRootMap(a, w.newTI(false), nil)
		}
		if err != nil {
			return nil, err
		}
		w.AddRoot(n)
		roots = append(roots, n)
	}
	// every other history also keeps a scratch container at the temporary address: its slabs stay in the write set for
	// ever (never written), in between the owned ones
	var temp *Node
	if hseed%2 == 1 {
		var err error
		if hseed%4 == 1 {
			temp, err = w.NewRootArray(atree.AddressUndefined, w.newTI(false))
		} else {
			temp, err = w.NewRootMap(atree.AddressUndefined, w.newTI(false), nil)
		}
		if err != nil {
			return nil, err
		}
		w.AddRoot(temp)
	}
	res := &c04Result{}
	hist := &HistCfg{DescendPct: 30, PopOnChild: true}
	commit := func() error {
		w.led.logOn = true
		w.led.log = w.led.log[:0]
		if err := w.Commit(relaxed, v.workers); err != nil {
			return err
		}
		var log []LedgerCall
		for _, c := range w.led.log {
			if c.Kind == 'S' || c.Kind == 'D' {
				log = append(log, c)
			}
		}
		w.led.logOn = false
		res.commitLogs = append(res.commitLogs, log)
		return nil
	}
	ops := 160
	for i := 1; i <= ops; i++ {
		root := roots[w.rng.Intn(len(roots))]
		ph := PhaseChurn
		if i < 70 {
			ph = PhaseGrow
		}
		if err := w.Step(root, ph, hist); err != nil {
			return nil, err
		}
		if temp != nil && i%5 == 0 {
			if err := w.Step(temp, PhaseChurn, &HistCfg{DescendPct: 10}); err != nil {
				return nil, err
			}
		}
		// commits of many changes, and (operations 110..139) a commit after every single operation: write sets with
		// at most one modified slab and a few deletions
		if i%27 == 0 || (i >= 110 && i < 140) {
			if err := commit(); err != nil {
				return nil, err
			}
		}
		if i == 100 {
			// reload point: same place in every replica
			if err := commit(); err != nil {
				return nil, err
			}
			// the scratch container lives in memory only: it is abandoned with the old storage and a new one is started
			if temp != nil {
				w.roots = w.roots[:len(w.roots)-1]
			}
			if err := w.Reopen(); err != nil {
				return nil, err
			}
			if temp != nil {
				var err error
				if temp, err = w.NewRootArray(atree.AddressUndefined, w.newTI(false)); err != nil {
					return nil, err
				}
				w.AddRoot(temp)
			}
		}
	}
	if err := commit(); err != nil {
		return nil, err
	}
	for _, r := range roots {
		if r.Kind == KMap {
			if err := w.handle(r); err != nil {
				return nil, err
			}
			res.seeds = append(res.seeds, r.Map.Seed())
		}
	}
	res.regs = w.led.Snapshot()
	res.trace = w.trace
	return res, nil
}

func idLess(a, b atree.SlabID) bool {
	var x, y [16]byte
	_, _ = a.ToRawBytes(x[:])
	_, _ = b.ToRawBytes(y[:])
	return bytes.Compare(x[:], y[:]) < 0
}

// c04Digest summarises one run: ordered logs for the deterministic commit, multisets for the relaxed one.
func c04Digest(r *c04Result, relaxed bool) string {
	h := fnv.New64a()
	for ci, log := range r.commitLogs {
		entries := make([]string, len(log))
		for i, c := range log {
			entries[i] = fmt.Sprintf("%c|%s|%d|%x", c.Kind, c.ID, c.Len, c.Hash)
		}
		if relaxed {
			sort.Strings(entries)
		}
		fmt.Fprintf(h, "commit %d:%s;", ci, strings.Join(entries, ","))
	}
	for _, s := range r.seeds {
		fmt.Fprintf(h, "seed %d;", s)
	}
	return fmt.Sprintf("%016x-%016x", h.Sum64(), regsDigest(r.regs))
}

const c04Histories = 161

func runC04(c *CaseCtx) *CaseResult {
	nh := c04Histories
	if c.Tier == "thorough" {
		nh = 801
	}
	hidx := c.Case % nh
	group := c.Case / nh // the same history runs in several cases (different worker processes)
	relaxed := hidx%3 == 2
	hseed := int64(fnv64(fmt.Sprintf("c04|%d|%d", c.Seed, hidx)) & 0x7fffffffffffffff)
	res := &CaseResult{Stats: newStats(), Obs: map[string]int{}}
	res.Config = map[string]any{"history": hidx, "process_group": group, "relaxed_commit": relaxed}
	workers := []int{1, 2, 3, 8, 64}
	procs := []int{1, 2, 16}
	var variants []c04Variant
	for i := 0; i < 3; i++ {
		k := group*3 + i
		variants = append(variants, c04Variant{workers: workers[(k+hidx)%len(workers)], procs: procs[(k+hidx/2)%len(procs)], jitter: k%2 == 1, gcFirst: k%3 == 0, warmup: k%3 == 1})
	}
	var first *c04Result
	var firstDigest string
	storeOrders := map[string]bool{}
	for vi, v := range variants {
		r, err := c04Run(hseed, relaxed, v)
		if err != nil {
			if vv, ok := err.(*Violation); ok {
				res.fail(viol(vv.Sig, "replica %s: %s", v, vv.Msg))
			} else {
				res.fail(viol("harness", "replica %s: %v", v, err))
			}
			return res
		}
		res.Obs["replicas"]++
		if n := int(c04PoolProbes.Swap(0)); n > 0 {
			res.Obs["pool-probes-after-encode-errors"] += n
		}
		// the deterministic commit issues writes and deletions in ascending (owner, index) order
		for ci, log := range r.commitLogs {
			var order []string
			for i, cl := range log {
				order = append(order, cl.ID.String())
				if !relaxed && i > 0 && !idLess(log[i-1].ID, cl.ID) {
					res.fail(viol("commit-order", "replica %s: commit %d issued %s before %s (not ascending by owner, index)", v, ci, log[i-1].ID, cl.ID))
					res.Trace = r.trace
					return res
				}
			}
			if relaxed && len(log) > 1 {
				storeOrders[strings.Join(order, ",")] = true
			}
			if len(log) >= 8 {
				owners := map[atree.Address]bool{}
				dels := 0
				for _, cl := range log {
					owners[cl.ID.Address()] = true
					if cl.Kind == 'D' {
						dels++
					}
				}
				if len(owners) >= 2 && dels > 0 {
					res.Obs["commits-with-8-writes-2-owners-and-a-deletion"]++
				}
			}
		}
		d := c04Digest(r, relaxed)
		if vi == 0 {
			first, firstDigest = r, d
			res.Trace = r.trace
			continue
		}
		if d != firstDigest {
			msg := fmt.Sprintf("replica %s differs from replica %s", v, variants[0])
			if df := diffRegs(first.regs, r.regs); len(df) > 0 {
				msg += fmt.Sprintf("; registers: %v", df)
			} else {
				msg += "; same registers, different commit write log"
			}
			res.fail(viol("determinism", "%s", msg))
			return res
		}
	}
	// the other commit flavour on the same history: "the order-relaxed commit may differ only in that order", so the final
	// registers and map seeds must be the same
	{
		r, err := c04Run(hseed, !relaxed, variants[0])
		if err != nil {
			if vv, ok := err.(*Violation); ok {
				res.fail(viol(vv.Sig, "other commit flavour: %s", vv.Msg))
			} else {
				res.fail(viol("harness", "other commit flavour: %v", err))
			}
			return res
		}
		if regsDigest(r.regs) != regsDigest(first.regs) || fmt.Sprint(r.seeds) != fmt.Sprint(first.seeds) || len(r.commitLogs) != len(first.commitLogs) {
			res.fail(viol("determinism-flavour", "the deterministic and the order-relaxed commit produced different registers for the same history: %v", diffRegs(first.regs, r.regs)))
			return res
		}
		// per commit: same multiset of writes and deletions
		for ci := range r.commitLogs {
			ms := func(log []LedgerCall) string {
				e := make([]string, len(log))
				for i, c := range log {
					e[i] = fmt.Sprintf("%c|%s|%d|%x", c.Kind, c.ID, c.Len, c.Hash)
				}
				sort.Strings(e)
				return strings.Join(e, ",")
			}
			if ms(r.commitLogs[ci]) != ms(first.commitLogs[ci]) {
				res.fail(viol("determinism-flavour", "commit %d: the two commit flavours issued different sets of writes / deletions", ci))
				return res
			}
		}
		res.Obs["histories-compared-across-commit-flavours"]++
	}
	res.Obs["distinct-relaxed-store-orders"] += len(storeOrders)
	// cross-process exchange: the orchestrator compares these files for the same history
	if c.Dir != "" {
		name := fmt.Sprintf("c04-h%04d-g%d-pid%d.digest", hidx, group, os.Getpid())
		_ = os.WriteFile(filepath.Join(c.Dir, name), []byte(firstDigest), 0o644)
	}
	res.Evals = len(variants)
	res.Hash = fnv64(fmt.Sprintf("%d|%d|%s", hidx, group, firstDigest))
	res.NonTrivial = res.Obs["commits-with-8-writes-2-owners-and-a-deletion"] > 0
	return res
}

func fnv64(s string) uint64 {
	h := fnv.New64a()
	_, _ = h.Write([]byte(s))
	return h.Sum64()
}

func c04Post(tier string, seed int64, dir string, ev *Evidence) []*ReplayFile {
	files, _ := filepath.Glob(filepath.Join(dir, "c04-h*.digest"))
	byHist := map[string]map[string][]string{} // history -> digest -> files
	pids := map[string]map[string]bool{}
	for _, f := range files {
		base := filepath.Base(f)
		h := base[4:9]
		b, _ := os.ReadFile(f)
		if byHist[h] == nil {
			byHist[h] = map[string][]string{}
			pids[h] = map[string]bool{}
		}
		byHist[h][string(b)] = append(byHist[h][string(b)], base)
		pids[h][base[strings.Index(base, "pid"):]] = true
	}
	var out []*ReplayFile
	multi := 0
	for h, ds := range byHist {
		if len(pids[h]) >= 2 {
			multi++
		}
		if len(ds) > 1 {
			var desc []string
			for d, fs := range ds {
				desc = append(desc, fmt.Sprintf("%s: %v", d, fs))
			}
			sort.Strings(desc)
			var hn int
			fmt.Sscanf(h, "h%d", &hn)
			out = append(out, &ReplayFile{Property: "C04", Seed: seed, Tier: tier, Case: hn, Sig: "determinism-process",
				Message: "the same history produced different commit logs / registers in different processes: " + strings.Join(desc, " | ")})
		}
	}
	if obs, ok := ev.Coverage["observed"].(map[string]int); ok {
		obs["histories-compared-across-processes"] = multi
		obs["digest-files"] = len(files)
	}
	return out
}

// ---------------------------------------------------------------------------------------------
// C16: parallel commit / preload and concurrent independent storages (race-detector build)

// c16State builds a storage with many dirty slabs: arrays of blobs (whose Encode yields), maps, nested children.
func c16State(seed int64, blobs int) (*World, []*Node, error) {
	w := NewWorld(seed, addrOf(3, 0))
	w.traceOn = false
	w.prof.PContainer = 15
	w.prof.MaxDepth = 2
	w.prof.Composite = true
	var roots []*Node
	arr, err := w.NewRootArray(addrOf(3, 0), TI{ID: 1})
	if err != nil {
		return nil, nil, err
	}
	w.AddRoot(arr)
	roots = append(roots, arr)
	for i := 0; i < blobs; i++ {
		v := BlobValue{ID: uint64(i + 1), Pad: uint32(40 + w.rng.Intn(200))}
		if err := arr.Arr.Append(v); err != nil {
			return nil, nil, err
		}
	}
	m, err := w.NewRootMap(addrOf(4, 0x10), TI{ID: 2}, nil)
	if err != nil {
		return nil, nil, err
	}
	w.AddRoot(m)
	roots = append(roots, m)
	hist := &HistCfg{DescendPct: 20, PopOnChild: true}
	for i := 0; i < 120; i++ {
		if err := w.Step(m, PhaseGrow, hist); err != nil {
			return nil, nil, err
		}
	}
	// a map (outside the model, never stepped) whose values are blobs: their Encode yields / fails on demand inside
	// map data slabs
	bm, err := atree.NewMap(w.st, addrOf(6, 0x20), atree.NewDefaultDigesterBuilder(), TI{ID: 4})
	if err != nil {
		return nil, nil, err
	}
	for i := 0; i < blobs/2; i++ {
		v := BlobValue{ID: uint64(i + 1), Pad: uint32(30 + w.rng.Intn(120))}
		if _, err := bm.Set(w.cb.Compare, w.cb.HashInput, tu.Uint64Value(uint64(i)), v); err != nil {
			return nil, nil, err
		}
	}
	a2, err := w.NewRootArray(addrOf(5, 0), TI{ID: 3})
	if err != nil {
		return nil, nil, err
	}
	w.AddRoot(a2)
	roots = append(roots, a2)
	for i := 0; i < 120; i++ {
		if err := w.Step(a2, PhaseGrow, hist); err != nil {
			return nil, nil, err
		}
	}
	return w, roots, nil
}

// sequentialCommit is the one-goroutine reference: sorted owned write-set keys -> EncodeSlab -> store / delete.
func sequentialCommit(ps *atree.PersistentSlabStorage, regs map[atree.SlabID][]byte) (map[atree.SlabID][]byte, error) {
	deltas, _ := atree.VerifStorageLayers(ps)
	sort.Slice(deltas, func(i, j int) bool { return idLess(deltas[i].ID, deltas[j].ID) })
	out := copyRegs(regs)
	for _, e := range deltas {
		if e.ID.Address() == atree.AddressUndefined {
			continue
		}
		if !e.Present {
			delete(out, e.ID)
			continue
		}
		b, err := atree.EncodeSlab(e.Slab, cborEncMode)
		if err != nil {
			return nil, err
		}
		out[e.ID] = b
	}
	return out, nil
}

var c16HangSeen int64 // a preload hang was already reported by this process

var c16Busy int64 // workers currently inside a callback (observed by the committing goroutine on error)

func jitterHook(r *rand.Rand, mu *sync.Mutex, level int) func(uint64) error {
	return func(uint64) error {
		atomic.AddInt64(&c16Busy, 1)
		defer atomic.AddInt64(&c16Busy, -1)
		mu.Lock()
		x := r.Intn(100)
		mu.Unlock()
		switch {
		case level == 0:
		case x < 40:
			runtime.Gosched()
		case x < 40+10*level:
			time.Sleep(time.Duration(20+x) * time.Microsecond)
		}
		return nil
	}
}

func runC16(c *CaseCtx) *CaseResult {
	res := &CaseResult{Stats: newStats(), Obs: map[string]int{}}
	mode := c.Case % 4
	res.Config = map[string]any{"mode": []string{"parallel-commit", "parallel-preload", "error-paths", "concurrent-clients"}[mode], "case": c.Case}
	atree.VerifSetThreshold(1024)
	r := rand.New(rand.NewSource(c.CaseSeed()))
	var mu sync.Mutex
	fail := func(err error) *CaseResult {
		if v, ok := err.(*Violation); ok {
			res.fail(v)
		} else {
			res.fail(viol("harness", "%v", err))
		}
		return res
	}
	defer func() {
		blobEncodeHook.Store((func(uint64) error)(nil))
		blobDecodeHook.Store((func(uint64) error)(nil))
		runtime.GOMAXPROCS(runtime.NumCPU())
	}()
	workersList := []int{1, 2, 3, 4, 8, 16, 64}
	procsList := []int{1, 2, 4, 16}
	stateSeed := c.CaseSeed()
	switch mode {
	case 0: // parallel commit == sequential commit
		combos := 6
		if c.Tier == "thorough" {
			combos = 14
		}
		orders := map[string]bool{}
		for k := 0; k < combos; k++ {
			workers := workersList[(c.Case/4+k)%len(workersList)]
			procs := procsList[(c.Case/4+k/2)%len(procsList)]
			relaxed := k%2 == 1
			level := k % 3
			runtime.GOMAXPROCS(procs)
			w, _, err := c16State(stateSeed, 60+r.Intn(60))
			if err != nil {
				return fail(err)
			}
			// two-step: commit, mutate some more (so that deletions and re-stores occur), then the measured commit
			if err := w.Commit(false, 1); err != nil {
				return fail(err)
			}
			for i := 0; i < 80; i++ {
				if err := w.Step(w.roots[1+i%2], PhaseChurn, &HistCfg{DescendPct: 20, PopOnChild: true}); err != nil {
					return fail(err)
				}
			}
			for i := 0; i < 10; i++ {
				_, _ = w.roots[0].Arr.Remove(uint64(w.rng.Intn(int(w.roots[0].Arr.Count()))))
			}
			want, err := sequentialCommit(w.ps, w.led.Snapshot())
			if err != nil {
				return fail(err)
			}
			pendingBefore, _ := atree.VerifStorageLayers(w.ps)
			blobEncodeHook.Store(jitterHook(r, &mu, level))
			if level > 0 {
				w.led.Jitter = func() { runtime.Gosched() }
			}
			w.led.logOn = true
			w.led.log = w.led.log[:0]
			w.led.inCommit = true
			if relaxed {
				err = w.ps.NondeterministicFastCommit(workers)
			} else {
				err = w.ps.FastCommit(workers)
			}
			w.led.inCommit = false
			blobEncodeHook.Store((func(uint64) error)(nil))
			if err != nil {
				return fail(viol("parallel-commit", "commit with %d workers (GOMAXPROCS %d, relaxed %v) failed: %v", workers, procs, relaxed, err))
			}
			got := w.led.Snapshot()
			if regsDigest(got) != regsDigest(want) {
				return fail(viol("parallel-commit", "commit with %d workers (GOMAXPROCS %d, relaxed %v) produced different registers than the sequential reference: %v", workers, procs, relaxed, diffRegs(want, got)))
			}
			// cache == what was committed
			for _, e := range pendingBefore {
				if e.ID.Address() == atree.AddressUndefined {
					continue
				}
				s := w.ps.RetrieveIfLoaded(e.ID)
				if e.Present {
					if s == nil {
						return fail(viol("parallel-commit", "slab %s not cached after commit with %d workers", e.ID, workers))
					}
					b, err := atree.EncodeSlab(s, cborEncMode)
					if err != nil || !bytes.Equal(b, want[e.ID]) {
						return fail(viol("parallel-commit", "cached slab %s differs from its register after commit with %d workers", e.ID, workers))
					}
				} else if s != nil {
					return fail(viol("parallel-commit", "deleted slab %s still loaded after commit", e.ID))
				}
			}
			if w.ps.DeltasWithoutTempAddresses() != 0 {
				return fail(viol("parallel-commit", "%d owned slabs pending after commit", w.ps.DeltasWithoutTempAddresses()))
			}
			if relaxed {
				var order []string
				for _, cl := range w.led.log {
					if cl.Kind == 'S' {
						order = append(order, cl.ID.String())
					}
				}
				orders[strings.Join(order, ",")] = true
			}
			res.Obs["parallel-commits-compared"]++
		}
		res.Obs["distinct-relaxed-store-orders"] += len(orders)
		res.Evals = combos
	case 1: // parallel preload == sequential decode
		w, _, err := c16State(stateSeed, 80+r.Intn(80))
		if err != nil {
			return fail(err)
		}
		if err := w.Commit(false, 2); err != nil {
			return fail(err)
		}
		regs := w.led.Snapshot()
		ids := sortedIDs(regs)
		// sequential reference
		ref := map[atree.SlabID][]byte{}
		for _, id := range ids {
			s, err := atree.DecodeSlab(id, regs[id], cborDecMode, decodeStorable, decodeTypeInfo)
			if err != nil {
				return fail(viol("harness", "register does not decode: %v", err))
			}
			b, _ := atree.EncodeSlab(s, cborEncMode)
			ref[id] = b
		}
		combos := 8
		if c.Tier == "thorough" {
			combos = 20
		}
		arrivals := map[string]bool{}
		for k := 0; k < combos; k++ {
			workers := workersList[(c.Case/4+k)%len(workersList)]
			procs := procsList[(c.Case/4+k/2)%len(procsList)]
			runtime.GOMAXPROCS(procs)
			led := NewLedgerFrom(regs, nil)
			ps := newStorage(led)
			var amu sync.Mutex
			var arrival []uint64
			jh := jitterHook(r, &mu, k%3)
			blobDecodeHook.Store(func(id uint64) error {
				amu.Lock()
				if len(arrival) < 12 {
					arrival = append(arrival, id)
				}
				amu.Unlock()
				return jh(id)
			})
			// ask also for ids that do not exist (skipped) and in shuffled order
			req := append([]atree.SlabID(nil), ids...)
			r.Shuffle(len(req), func(i, j int) { req[i], req[j] = req[j], req[i] })
			for i := 0; i < 5; i++ {
				req = append(req, freshID(regs, addrOf(3, 0), uint64(i)))
			}
			err := ps.BatchPreload(req, workers)
			blobDecodeHook.Store((func(uint64) error)(nil))
			if err != nil {
				return fail(viol("parallel-preload", "BatchPreload with %d workers failed: %v", workers, err))
			}
			_, cache := atree.VerifStorageLayers(ps)
			if len(cache) != len(ids) {
				return fail(viol("parallel-preload", "BatchPreload with %d workers cached %d slabs, %d registers exist", workers, len(cache), len(ids)))
			}
			for _, e := range cache {
				if !e.Present {
					return fail(viol("parallel-preload", "BatchPreload cached a nil entry for %s", e.ID))
				}
				b, err := atree.EncodeSlab(e.Slab, cborEncMode)
				if err != nil || !bytes.Equal(b, ref[e.ID]) {
					return fail(viol("parallel-preload", "slab %s preloaded with %d workers differs from the sequentially decoded one", e.ID, workers))
				}
			}
			if ps.Deltas() != 0 {
				return fail(viol("parallel-preload", "BatchPreload changed the write set"))
			}
			arrivals[fmt.Sprint(arrival)] = true
			res.Obs["parallel-preloads-compared"]++
		}
		res.Obs["distinct-decode-arrival-orders"] += len(arrivals)
		res.Evals = combos
	case 2: // error paths: failing storable, corrupt register, ledger failure while workers are busy
		combos := 6
		if c.Tier == "thorough" {
			combos = 14
		}
		for k := 0; k < combos; k++ {
			workers := workersList[(c.Case/4+k)%len(workersList)]
			procs := procsList[(c.Case/4+k)%len(procsList)]
			relaxed := k%2 == 0
			runtime.GOMAXPROCS(procs)
			nblobs := 120 + r.Intn(80)
			churnSeed := r.Int63()
			// mk builds the scenario's state from scratch (also used for the second stage of the bounded-progress oracle)
			mk := func() (*World, error) {
				w, _, err := c16State(stateSeed, nblobs)
				if err != nil {
					return nil, err
				}
				if k%3 == 1 {
					// a committed base plus further churn, so that the measured commit also issues deletions
					if err := w.Commit(false, 1); err != nil {
						return nil, err
					}
					w.rng = rand.New(rand.NewSource(churnSeed))
					for i := 0; i < 120; i++ {
						if err := w.Step(w.roots[1+i%2], PhaseChurn, &HistCfg{DescendPct: 20, PopOnChild: true}); err != nil {
							return nil, err
						}
					}
					for i := 0; i < 25; i++ {
						_, _ = w.roots[0].Arr.Remove(uint64(w.rng.Intn(int(w.roots[0].Arr.Count()))))
					}
				}
				return w, nil
			}
			w, err := mk()
			if err != nil {
				return fail(err)
			}
			// commitBounded: "the commit returns an error" includes that it returns. The call runs on its own goroutine
			// and is waited for with a limit far above its normal duration (milliseconds).
			commitBounded := func(w *World, limit time.Duration) (error, bool) {
				w.led.inCommit = true
				ch := make(chan error, 1)
				go func() {
					if relaxed {
						ch <- w.ps.NondeterministicFastCommit(workers)
					} else {
						ch <- w.ps.FastCommit(workers)
					}
				}()
				select {
				case e := <-ch:
					w.led.inCommit = false
					return e, true
				case <-time.After(limit):
					return nil, false
				}
			}
			// twoStage: 60 s on the prepared state; if that expires, the same scenario from scratch with 120 s; only a
			// second expiry is a violation (the goroutines of the first attempt are abandoned)
			twoStage := func(arm func(w *World), what string) (*World, error, *Violation) {
				arm(w)
				err, returned := commitBounded(w, 60*time.Second)
				if returned {
					return w, err, nil
				}
				res.Obs["commit-first-stage-timeouts"]++
				w2, e := mk()
				if e != nil {
					return nil, nil, viol("harness", "%v", e)
				}
				arm(w2)
				if err, returned = commitBounded(w2, 120*time.Second); !returned {
					atomic.StoreInt64(&c16HangSeen, 1)
					return nil, nil, viol("parallel-hang", "commit (%d workers, relaxed %v) did not return after %s (twice: 60 s, then 120 s on a fresh storage; normal duration is milliseconds)", workers, relaxed, what)
				}
				return w2, err, nil
			}
			if k%3 != 2 && atomic.LoadInt64(&c16HangSeen) != 0 {
				continue // a hang was already reported by this process; every further probe would cost minutes
			}
			jh := jitterHook(r, &mu, 2)
			switch k % 3 {
			case 0: // one failing storable: encode error while other workers are mid-job
				bad := uint64(1 + r.Intn(nblobs))
				if r.Intn(3) != 0 {
					bad = uint64(1 + r.Intn(nblobs/2)) // ids up to nblobs/2 also sit in map data slabs
				}
				blobEncodeHook.Store(func(id uint64) error {
					if id == bad {
						return ErrBlob
					}
					return jh(id)
				})
				var hv *Violation
				w, err, hv = twoStage(func(*World) {}, "one storable failed to encode")
				blobEncodeHook.Store((func(uint64) error)(nil))
				if hv != nil {
					return fail(hv)
				}
				if err == nil || !errors.Is(err, ErrBlob) {
					return fail(viol("parallel-error", "commit with a failing storable (%d workers, relaxed %v) returned %v", workers, relaxed, err))
				}
				if !relaxed {
					// same registers as doing the work on one goroutine: identical state, FastCommit(1)
					wr, _, err := c16State(stateSeed, nblobs)
					if err != nil {
						return fail(err)
					}
					blobEncodeHook.Store(func(id uint64) error {
						if id == bad {
							return ErrBlob
						}
						return nil
					})
					wr.led.inCommit = true
					errRef := wr.ps.FastCommit(1)
					wr.led.inCommit = false
					blobEncodeHook.Store((func(uint64) error)(nil))
					if errRef == nil || !errors.Is(errRef, ErrBlob) {
						return fail(viol("parallel-error", "one-worker commit with a failing storable returned %v", errRef))
					}
					if regsDigest(w.led.Snapshot()) != regsDigest(wr.led.Snapshot()) {
						return fail(viol("parallel-error", "after an encoding failure the %d-worker commit left %d registers, the one-worker commit %d", workers, len(w.led.regs), len(wr.led.regs)))
					}
				}
				res.Obs["encode-error-scenarios"]++
				// the same with a caller-supplied TYPE INFO that fails to encode: inlined children of a type of their own
				// inside an array and inside a map; both commit flavours, several times (each failure may take and
				// give back pooled objects)
				{
					const badType = 777777
					wt := NewWorld(stateSeed^0x7171, addrOf(9, 0))
					pa, errA := wt.NewRootArray(wt.addr, TI{ID: 1})
					pm, errM := wt.NewRootMap(wt.addr, TI{ID: 2}, nil)
					if errA != nil || errM != nil {
						return fail(viol("harness", "%v %v", errA, errM))
					}
					wt.AddRoot(pa)
					wt.AddRoot(pm)
					for i := 0; i < 6; i++ {
						ti := TI{ID: uint64(10 + i)}
						if i == 3 {
							ti = TI{ID: badType}
						}
						ca, err := wt.NewRootArray(wt.addr, ti)
						if err == nil {
							err = wt.OpArrayAppend(ca, &Node{Kind: KU8, U: uint64(i)})
						}
						if err == nil {
							err = wt.OpArrayAppend(pa, ca)
						}
						var cm *Node
						if err == nil {
							cm, err = wt.NewRootMap(wt.addr, ti, nil)
						}
						if err == nil {
							err = wt.OpMapSet(cm, &Node{Kind: KU8, U: 1}, &Node{Kind: KU8, U: uint64(i)})
						}
						if err == nil {
							err = wt.OpMapSet(pm, &Node{Kind: KU64, U: uint64(i)}, cm)
						}
						if err != nil {
							return fail(err)
						}
					}
					// ... and two ROOT containers of the failing type (their type info is encoded with the root slab's
					// extra data, a different place from the inlined children's)
					ra, errA := wt.NewRootArray(addrOf(9, 1), TI{ID: badType})
					rm, errM := wt.NewRootMap(addrOf(9, 2), TI{ID: badType}, nil)
					if errA != nil || errM != nil {
						return fail(viol("harness", "%v %v", errA, errM))
					}
					wt.AddRoot(ra)
					wt.AddRoot(rm)
					for i := 0; i < 30; i++ {
						if err := wt.OpArrayAppend(ra, &Node{Kind: KU64, U: uint64(i)}); err != nil {
							return fail(err)
						}
						if err := wt.OpMapSet(rm, &Node{Kind: KU64, U: uint64(i)}, &Node{Kind: KU64, U: uint64(i)}); err != nil {
							return fail(err)
						}
					}
					tiFailID.Store(badType)
					for round := 0; round < 8; round++ {
						wt.led.inCommit = true
						var err error
						if round%2 == 0 {
							err = wt.ps.FastCommit(workers)
						} else {
							err = wt.ps.NondeterministicFastCommit(workers)
						}
						wt.led.inCommit = false
						if err == nil || !errors.Is(err, ErrTypeInfo) {
							tiFailID.Store(0)
							return fail(viol("parallel-error", "commit with a type info that fails to encode (%d workers) returned %v", workers, err))
						}
					}
					tiFailID.Store(0)
					// nothing lost: with the fault gone the commit goes through and the content is intact
					if err := wt.Commit(false, workers); err != nil {
						return fail(err)
					}
					if err := wt.CheckDeep(); err != nil {
						return fail(err)
					}
					res.Obs["type-info-encode-error-scenarios"]++
				}
				// POOL PROBE: whatever the failed commit took from the process-wide pools must have gone back exactly once.
				// Straight after the failure (before a garbage collection empties the pools) two many-worker commits of a
				// fresh state run with yields inside Encode, so that encoder goroutines hold buffers while others start;
				// a buffer handed out twice shows as a race report or as registers that differ from the sequential reference.
				for _, rel := range []bool{true, false} {
					wp, _, err := c16State(stateSeed^0x5a5a, 90)
					if err != nil {
						return fail(err)
					}
					want, err := sequentialCommit(wp.ps, wp.led.Snapshot())
					if err != nil {
						return fail(err)
					}
					blobEncodeHook.Store(jitterHook(r, &mu, 2))
					wp.led.inCommit = true
					if rel {
						err = wp.ps.NondeterministicFastCommit(16)
					} else {
						err = wp.ps.FastCommit(16)
					}
					wp.led.inCommit = false
					blobEncodeHook.Store((func(uint64) error)(nil))
					if err != nil {
						return fail(viol("parallel-commit", "a 16-worker commit right after an encoding failure elsewhere in the process failed: %v", err))
					}
					if regsDigest(wp.led.Snapshot()) != regsDigest(want) {
						return fail(viol("parallel-commit", "a 16-worker commit (relaxed %v) right after an encoding failure elsewhere in the process differs from the sequential reference: %v", rel, diffRegs(want, wp.led.Snapshot())))
					}
					res.Obs["pool-probes-after-encode-errors"]++
				}
			case 1: // ledger failure on the k-th store while workers may still be encoding
				// the sequential reference is computed from the write set BEFORE the failing commit
				want, err := sequentialCommit(w.ps, w.led.Snapshot())
				if err != nil {
					return fail(err)
				}
				blobEncodeHook.Store(jh)
				pos := 1 + r.Intn(6)
				busyAtError := int64(0)
				failedDelete := false
				arm := func(w *World) {
					w.led.ResetFaultCounters()
					w.led.FailWrite = func(n int, kind byte, _ atree.SlabID) (bool, bool) {
						if n == pos {
							busyAtError = atomic.LoadInt64(&c16Busy)
							failedDelete = kind == 'D'
							return true, false
						}
						return false, false
					}
				}
				var hv *Violation
				w, err, hv = twoStage(arm, fmt.Sprintf("ledger write %d failed", pos))
				if hv != nil {
					blobEncodeHook.Store((func(uint64) error)(nil))
					return fail(hv)
				}
				w.led.FailWrite = nil
				blobEncodeHook.Store((func(uint64) error)(nil))
				if err == nil {
					return fail(viol("parallel-error", "commit with a ledger failure at write %d (%d workers, relaxed %v) returned nil", pos, workers, relaxed))
				}
				if busyAtError > 0 {
					res.Obs["ledger-error-while-workers-busy"]++
				}
				if failedDelete {
					res.Obs["ledger-delete-failures"]++
				}
				// nothing lost: retry converges to the sequential reference
				if err := w.Commit(relaxed, workers); err != nil {
					return fail(err)
				}
				if regsDigest(w.led.Snapshot()) != regsDigest(want) {
					return fail(viol("parallel-error", "retry after a ledger failure differs from the sequential reference"))
				}
				res.Obs["ledger-error-scenarios"]++
			case 2: // preload error paths: ledger read failure at the first / a middle / the last id, and a corrupt register
				if err := w.Commit(false, 2); err != nil {
					return fail(err)
				}
				{
					regs := w.led.Snapshot()
					ids := sortedIDs(regs)
					for _, pos := range []int{1, len(ids) / 2, len(ids)} {
						if atomic.LoadInt64(&c16HangSeen) != 0 {
							break // already reported once by this process; every further probe would cost minutes
						}
						// sequential reference: the one-goroutine path (fewer than 11 ids at a time is sequential by construction)
						led := NewLedgerFrom(regs, nil)
						led.FailRetrieve = func(n int, _ atree.SlabID) bool { return n == pos }
						ps := newStorage(led)
						blobDecodeHook.Store(jh)
						// "never returns" is observed as bounded progress in two stages: the call normally takes milliseconds;
						// if it has not returned after 60 s it is repeated on a fresh storage with 120 s; only a second
						// timeout is reported (the blocked goroutines of the first attempt are abandoned).
						call := func(limit time.Duration) (error, bool) {
							led := NewLedgerFrom(regs, nil)
							led.FailRetrieve = func(n int, _ atree.SlabID) bool { return n == pos }
							ps := newStorage(led)
							ch := make(chan error, 1)
							go func() { ch <- ps.BatchPreload(ids, workers) }()
							select {
							case e := <-ch:
								return e, true
							case <-time.After(limit):
								return nil, false
							}
						}
						_ = ps
						err, returned := call(60 * time.Second)
						if !returned {
							res.Obs["preload-first-stage-timeouts"]++
							if err, returned = call(120 * time.Second); !returned {
								blobDecodeHook.Store((func(uint64) error)(nil))
								atomic.StoreInt64(&c16HangSeen, 1)
								return fail(viol("parallel-hang", "BatchPreload (%d workers, %d ids) did not return after ledger read %d failed (twice: 60 s, then 120 s; normal duration is milliseconds)", workers, len(ids), pos))
							}
						}
						blobDecodeHook.Store((func(uint64) error)(nil))
						if err == nil {
							return fail(viol("parallel-error", "BatchPreload (%d workers) returned nil although ledger read %d of %d failed", workers, pos, len(ids)))
						}
						if !errors.Is(err, ErrInjected) {
							return fail(viol("parallel-error", "BatchPreload (%d workers) with a failing ledger read returned an unrelated error: %v", workers, err))
						}
						res.Obs["preload-read-failure-scenarios"]++
					}
				}
				regs := w.led.Snapshot()
				ids := sortedIDs(regs)
				victim := ids[r.Intn(len(ids))]
				bad := append([]byte(nil), regs[victim]...)
				bad = bad[:len(bad)/2]
				regs[victim] = bad
				_, seqErr := atree.DecodeSlab(victim, bad, cborDecMode, decodeStorable, decodeTypeInfo)
				blobDecodeHook.Store(jh)
				ps := newStorage(NewLedgerFrom(regs, nil))
				err := ps.BatchPreload(ids, workers)
				blobDecodeHook.Store((func(uint64) error)(nil))
				if (err == nil) != (seqErr == nil) {
					return fail(viol("parallel-error", "BatchPreload over a truncated register (%d workers) returned %v, sequential decode returned %v", workers, err, seqErr))
				}
				res.Obs["decode-error-scenarios"]++
			}
		}
		res.Evals = combos
	case 3: // concurrent independent clients
		G := []int{2, 4, 8, 16, 32}[c.Case/4%5]
		procs := procsList[(c.Case/4)%len(procsList)]
		if procs == 1 && G > 4 {
			procs = 2
		}
		runtime.GOMAXPROCS(procs)
		client := func(seed int64, jitter bool) (string, error) {
			w := NewWorld(seed, addrOf(byte(seed%200+1), 0))
			w.traceOn = true
			w.prof.PContainer = 25
			w.prof.MaxDepth = 3
			w.prof.Composite = true
			if jitter {
				jr := rand.New(rand.NewSource(seed))
				w.led.Jitter = func() {
					if jr.Intn(4) == 0 {
						runtime.Gosched()
					}
				}
			}
			var root *Node
			var err error
			if seed%2 == 0 {
				root, err = w.NewRootMap(w.addr, TI{ID: 1}, nil)
			} else {
				root, err = w.NewRootArray(w.addr, TI{ID: 1})
			}
			if err != nil {
				return "", err
			}
			w.AddRoot(root)
			hist := &HistCfg{DescendPct: 40, PopOnChild: true, InvalidPct: 3}
			for i := 1; i <= 220; i++ {
				ph := PhaseChurn
				if i < 90 {
					ph = PhaseGrow
				}
				if err := w.Step(root, ph, hist); err != nil {
					return "", err
				}
				if i%40 == 0 {
					if err := w.Commit(i%80 == 0, 1+i%5); err != nil {
						return "", err
					}
				}
				if i == 110 && root.Kind == KMap && len(root.M) > 4 {
					// ERROR PATHS inside library calls, half-way through the history: whatever a failing call took from
					// the process-wide pools must go back exactly once, or another goroutine ends up sharing it.
					// (a) a ledger read fails during a mutable iteration over a cold map
					if err := w.Commit(false, 2); err != nil {
						return "", err
					}
					w.DropCache()
					w.led.ResetFaultCounters()
					w.led.FailRetrieve = func(n int, _ atree.SlabID) bool { return n == 2 }
					seen := 0
					ierr := root.Map.Iterate(w.cb.Compare, w.cb.HashInput, func(k, v atree.Value) (bool, error) {
						seen++
						return true, nil
					})
					w.led.FailRetrieve = nil
					w.logOp("mutable iteration with a failing ledger read: %d entries, failed=%v", seen, ierr != nil)
					// (b) the iterator's next key disappears before the following Next (unsupported use: the outcome is
					// recorded in the transcript, not judged)
					exp, err := w.expectedMapOrder(root)
					if err != nil {
						return "", err
					}
					it, err := root.Map.Iterator(w.cb.Compare, w.cb.HashInput)
					if err != nil {
						return "", viol("iter", "Iterator failed: %v", err)
					}
					if _, _, err := it.Next(); err != nil {
						return "", viol("iter", "Next failed: %v", err)
					}
					if err := w.OpMapRemove(root, exp[1].k); err != nil {
						return "", err
					}
					_, _, nerr := it.Next()
					w.logOp("Next after the next key was removed: failed=%v", nerr != nil)
					// (c) the caller's hash-input provider and, separately, the caller's comparator fail inside a lookup, an
					// update and a removal (each holds a pooled digester at that moment)
					probe := exp[len(exp)/2].k
					for _, which := range []string{"hip", "cmp"} {
						for _, op := range []string{"get", "set", "remove"} {
							w.cb.Reset()
							if which == "hip" {
								w.cb.FailHipAt = 1
							} else {
								w.cb.FailCmpAt = 1
							}
							var oerr error
							switch op {
							case "get":
								_, oerr = root.Map.Get(w.cb.Compare, w.cb.HashInput, scalarValue(probe))
							case "set":
								_, oerr = root.Map.Set(w.cb.Compare, w.cb.HashInput, scalarValue(probe), scalarValue(&Node{Kind: KU8, U: 1}))
							default:
								_, _, oerr = root.Map.Remove(w.cb.Compare, w.cb.HashInput, scalarValue(probe))
							}
							fired := w.cb.HipFailed || w.cb.CmpFailed
							w.cb.Reset()
							if !fired {
								return "", viol("harness", "the injected %s fault was never reached by Map.%s", which, op)
							}
							if oerr == nil {
								return "", viol("parallel-error", "Map.%s returned nil although the caller's %s failed", op, which)
							}
							w.logOp("%s with failing %s: fired=%v failed=%v", op, which, fired, oerr != nil)
						}
					}
					if err := w.CheckDeep(); err != nil {
						return "", err
					}
					// (d) a batch build whose element stream fails half-way (array and map)
					k := 0
					_, berr := atree.NewArrayFromBatchData(w.st, w.addr, TI{ID: 3}, func() (atree.Value, error) {
						if k++; k > 40 {
							return nil, ErrCallback
						}
						return tu.Uint64Value(uint64(k)), nil
					})
					k = 0
					_, merr := atree.NewMapFromBatchData(w.st, w.addr, atree.NewDefaultDigesterBuilder(), TI{ID: 3}, w.cb.Compare, w.cb.HashInput, root.Map.Seed(),
						func() (atree.Value, atree.Value, error) {
							if k++; k > 25 {
								return nil, nil, ErrCallback
							}
							return tu.Uint64Value(uint64(k)), tu.Uint64Value(uint64(k)), nil
						})
					if berr == nil || merr == nil {
						return "", viol("parallel-error", "batch build with a failing element stream returned nil (array %v, map %v)", berr, merr)
					}
					// ... and batch builds in which a VALUE cannot be turned into a storable (Value.Storable fails), for a
					// non-colliding and for a colliding key
					for _, badAt := range []int{1, 7} {
						k = 0
						_, aerr := atree.NewArrayFromBatchData(w.st, w.addr, TI{ID: 3}, func() (atree.Value, error) {
							if k++; k > 12 {
								return nil, nil
							}
							if k == badAt {
								return BlobValue{ID: 4242, Pad: 20, FailStorable: true}, nil
							}
							return tu.Uint64Value(uint64(k)), nil
						})
						src2, err := atree.NewMap(w.st, w.addr, atree.NewDefaultDigesterBuilder(), TI{ID: 3})
						if err != nil {
							return "", viol("harness", "%v", err)
						}
						for i := 0; i < 12; i++ {
							if _, err := src2.Set(w.cb.Compare, w.cb.HashInput, tu.Uint64Value(uint64(i)), tu.Uint64Value(uint64(i))); err != nil {
								return "", viol("harness", "%v", err)
							}
						}
						it2, _ := src2.ReadOnlyIterator()
						k = 0
						_, m2err := atree.NewMapFromBatchData(w.st, w.addr, atree.NewDefaultDigesterBuilder(), TI{ID: 3}, w.cb.Compare, w.cb.HashInput, src2.Seed(),
							func() (atree.Value, atree.Value, error) {
								kk, vv, err := it2.Next()
								if err != nil || kk == nil {
									return nil, nil, err
								}
								if k++; k == badAt {
									return kk, BlobValue{ID: 4242, Pad: 20, FailStorable: true}, nil
								}
								return kk, vv, nil
							})
						if aerr == nil || m2err == nil {
							return "", viol("parallel-error", "batch build with a value whose Storable fails returned nil (array %v, map %v)", aerr, m2err)
						}
						// the source map is disposed of again
						_ = src2.PopIterate(func(atree.Storable, atree.Storable) {})
						_ = w.st.Remove(src2.SlabID())
					}

					w.logOp("batch builds with a failing stream: %v / %v", berr != nil, merr != nil)
				}
				if i%55 == 0 {
					if err := w.CheckTree(true); err != nil {
						return "", err
					}
				}
			}
			if err := w.CheckDeep(); err != nil {
				return "", err
			}
			// enumeration (digester pool: the mutable map iterator re-digests keys) and iterator objects
			if root.Kind == KArr {
				err = w.checkArrayIterators(root)
			} else {
				err = w.checkMapIterators(root)
			}
			if err != nil {
				return "", err
			}
			if err := w.checkIteratorObjects(root); err != nil {
				return "", err
			}
			if err := w.Commit(false, 3); err != nil {
				return "", err
			}
			if _, err := atree.CheckStorageHealth(w.ps, 1); err != nil {
				return "", viol("health", "CheckStorageHealth on a private storage failed: %v", err)
			}
			return fmt.Sprintf("%016x-%016x", traceHash(nil, w.trace), regsDigest(w.led.Snapshot())), nil
		}
		seeds := make([]int64, G)
		for i := range seeds {
			seeds[i] = c.CaseSeed()%100000 + int64(i)*7919
		}
		solo := make([]string, G)
		for i, s := range seeds {
			d, err := client(s, false)
			if err != nil {
				return fail(err)
			}
			solo[i] = d
		}
		conc := make([]string, G)
		errs := make([]error, G)
		var wg sync.WaitGroup
		for i := range seeds {
			wg.Add(1)
			go func(i int) {
				defer wg.Done()
				defer func() {
					if p := recover(); p != nil {
						errs[i] = viol("panic", "client goroutine %d panicked: %v", i, p)
					}
				}()
				conc[i], errs[i] = client(seeds[i], true)
			}(i)
		}
		wg.Wait()
		for i := range seeds {
			if errs[i] != nil {
				if v, ok := errs[i].(*Violation); ok {
					return fail(viol("concurrent-"+v.Sig, "client %d of %d running concurrently: %s", i, G, v.Msg))
				}
				return fail(errs[i])
			}
			if conc[i] != solo[i] {
				return fail(viol("concurrent-differs", "client %d of %d obtained a different transcript / registers when running concurrently (%s) than alone (%s)", i, G, conc[i], solo[i]))
			}
		}
		// and alone again afterwards (pools now hold objects used by other goroutines)
		for i, s := range seeds[:2] {
			d, err := client(s, false)
			if err != nil {
				return fail(err)
			}
			if d != solo[i] {
				return fail(viol("concurrent-differs", "client %d differs when re-run alone after the concurrent phase", i))
			}
		}
		res.Obs["concurrent-client-rounds"]++
		res.Obs["concurrent-clients"] += G
		res.Evals = G
	}
	res.Hash = fnv64(fmt.Sprintf("c16|%d|%d", c.Case, c.CaseSeed()))
	res.NonTrivial = true
	res.Trace = []string{fmt.Sprintf("mode %v", res.Config["mode"])}
	return res
}

func init() {
	cases := func(q, t int) func(string) int {
		return func(tier string) int {
			if tier == "thorough" {
				return t
			}
			return q
		}
	}
	register(&Prop{
		ID: "C04", Level: "exploration", Run: runC04, Cases: cases(c04Histories*2, 801*3), MinNonTrivial: 8, Post: c04Post,
		Rule: "each of 161 (quick) / 801 (thorough) seeded histories over 4 owner addresses (two differing only in the last byte, one with a high first byte, slab indexes starting just below 255 / 65535 / 2^32), nested inlined children, composite-typed maps, deletions, a reload point, is executed as replicas that vary worker count {1,2,3,8,64}, GOMAXPROCS {1,2,16}, scheduling jitter in ledger calls, object-pool state (GC twice / unrelated work first, including commits that fail while encoding an element or the type info of a root / inlined array / map, each followed by a pool probe: a 16-worker commit with yields inside Encode compared with the single-goroutine encoding) " +
			"and PROCESS (the same history runs in 2 (quick) / 3 (thorough) different worker processes, 3 replicas each). Every other history keeps a scratch container at the temporary address (its slabs stay pending among the owned ones) and operations 110-139 are each followed by a commit (write sets with <= 1 modified slab plus deletions); each history is also run once with the OTHER commit flavour: final registers, map seeds and the per-commit multisets of writes must be equal. Compared: for the deterministic commit the exact sequence of ledger writes/deletes (id, length, content hash) of every commit and strict ascending (owner bytes, index bytes) order; for the relaxed commit the multiset of writes; final registers byte-for-byte; map seeds. " +
			"non-trivial = a commit with >=8 writes over >=2 owners incl. >=1 deletion was compared; distinct by (history, process group, digest)",
		Assumptions: []string{"'all interleavings / all map iteration orders' is sampled by repetition across replicas and processes, not enumerated"},
		Mandatory:   []string{"replicas", "pool-probes-after-encode-errors", "histories-compared-across-processes", "histories-compared-across-commit-flavours", "commits-with-8-writes-2-owners-and-a-deletion", "distinct-relaxed-store-orders"},
	})
	register(&Prop{
		ID: "C16", Level: "exploration", Run: runC16, Cases: cases(96, 480), MinNonTrivial: 8, Race: true,
		Shards: func(string) int { return 9 }, // coprime with the 4 modes, so every worker process sees every mode
		Rule: "race-detector build (every report is a violation). Cases cycle over 4 modes: (1) FastCommit / NondeterministicFastCommit with workers {1,2,3,4,8,16,64} x GOMAXPROCS {1,2,4,16} x 3 jitter levels, jitter injected inside caller-supplied Storable.Encode and ledger calls, compared with a sequential re-implementation (sorted keys -> EncodeSlab -> store): registers, cache content, pending set, error; " +
			"(2) BatchPreload with the same worker/GOMAXPROCS grid and jitter inside the storable decoder, shuffled ids incl. absent ones, compared with sequential decoding: cache ids + re-encoded bytes; (3) error paths: one failing storable (array and map slabs), ledger store/delete failure on the k-th write while encoder workers are still busy (then retry must converge to the sequential reference), ledger READ failure at the first / middle / last id of a parallel preload (must return the error; 'never returns' is a two-stage bounded-progress observation: 60 s, then 120 s on a fresh storage, normal duration is milliseconds), truncated register in preload; " +
			"(4) G in {2,4,8,16,32} goroutines each with its own ledger/storage/containers run seeded map/array histories with commits concurrently: transcript hash and final registers of each must equal its solo run (before and after the concurrent phase). non-trivial = every case (each compares several configurations); distinct by case seed",
		Assumptions: []string{"interleavings are sampled, not enumerated; the race detector only sees executed interleavings", "global settings (slab size) are set before any goroutine starts"},
		Mandatory:   []string{"parallel-commits-compared", "parallel-preloads-compared", "encode-error-scenarios", "type-info-encode-error-scenarios", "pool-probes-after-encode-errors", "ledger-error-scenarios", "decode-error-scenarios", "preload-read-failure-scenarios", "concurrent-client-rounds", "distinct-relaxed-store-orders"},
	})
}
