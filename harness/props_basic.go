package main

import (
	"fmt"
	"math/rand"

	"github.com/onflow/atree"
)

var slabChoices = []uint32{256, 1024, 32768, 512, 300, 777, 2048, 4097}

func pickSlab(r *rand.Rand, i int) uint32 {
	switch i % 6 {
	case 0:
		return 256
	case 1:
		return 1024
	case 2:
		return 512
	case 3:
		return 32768
	case 4:
		return uint32(256 + r.Intn(1800))
	default:
		return uint32(256 + r.Intn(32768-256))
	}
}

// ContCase configures one container-history case.
type ContCase struct {
	Kind             string // "array" or "map"
	Slab             uint32
	Ops              int
	Prof             ValProfile
	Mon              MonCfg
	Hist             HistCfg
	Phases           []Phase
	Dig              *DigProfile
	CommitEvery      int
	EvictEvery       int // every n-th periodic commit is followed by DropCache (0 = never)
	ReopenEvery      int // every n-th periodic commit is followed by a full reopen from the ledger (0 = never)
	Relaxed          bool
	Workers          int
	Limit            uint32 // collision limit (0 = leave default)
	SetLimit         bool
	HipClasses       uint64                     // > 0: colliding hash-input provider (Callbacks.HipClasses) under the default digester
	BatchStart       int                        // > 0: the root starts as a container built by the batch constructor from that many generated scalars
	DrainedIsOneSlab bool                       // C09: after DrainAtEnd the container must occupy exactly one slab and nothing else may remain
	DrainAtEnd       bool                       // after the phases: remove every element one by one (no bulk pop), then regrow a little
	Temp             bool                       // root at the temporary address
	Init             func(w *World, root *Node) // called once, right after the root has been created (before the first operation)
	Final            func(w *World, root *Node, res *CaseResult)
	PerOp            func(w *World, root *Node) error
	AfterCommit      func(w *World, root *Node) error
}

func (cc *ContCase) config() map[string]any {
	m := map[string]any{
		"kind": cc.Kind, "slab_size": cc.Slab, "ops": cc.Ops, "sizes": cc.Prof.Sizes, "max_depth": cc.Prof.MaxDepth,
		"p_container": cc.Prof.PContainer, "composite": cc.Prof.Composite, "descend_pct": cc.Hist.DescendPct,
		"commit_every": cc.CommitEvery, "relaxed_commit": cc.Relaxed, "invalid_pct": cc.Hist.InvalidPct,
	}
	if cc.Dig != nil {
		m["digests"] = cc.Dig.String()
	}
	if cc.HipClasses > 0 {
		m["hash_input_classes"] = cc.HipClasses
	}
	if cc.SetLimit {
		m["collision_limit"] = cc.Limit
	}
	return m
}

// runContainerCase drives one seeded history against one root container with all selected monitors.
func runContainerCase(c *CaseCtx, cc *ContCase) (*CaseResult, *World, *Node) {
	res := &CaseResult{Config: cc.config()}
	atree.VerifSetThreshold(cc.Slab)
	defer atree.VerifSetThreshold(1024)
	if cc.SetLimit {
		old := atree.VerifMaxCollisionLimitPerDigest()
		atree.VerifSetMaxCollisionLimitPerDigest(cc.Limit)
		defer atree.VerifSetMaxCollisionLimitPerDigest(old)
	}
	addr := addrOf(byte(1+c.Case%200), 0)
	if cc.Temp {
		addr = atree.AddressUndefined
	}
	w := NewWorld(c.CaseSeed(), addr)
	w.prof = cc.Prof
	w.mon = cc.Mon
	w.TolerateInlineLimit = true
	w.cb.HipClasses = cc.HipClasses
	res.Stats = w.stats
	var root *Node
	var err error
	finish := func(e error) (*CaseResult, *World, *Node) {
		if e == errStop {
			e = nil // the library refused a commit because of its 256-entry limit: the case ends without a verdict on the rest
		}
		if e != nil {
			if v, ok := e.(*Violation); ok {
				res.fail(v)
			} else {
				res.fail(viol("harness", "%v", e))
			}
		}
		res.Trace = w.trace
		res.Hash = traceHash(res.Config, w.trace)
		return res, w, root
	}
	defer func() {
		if r := recover(); r != nil {
			res.Trace = w.trace
			panic(r)
		}
	}()
	if cc.BatchStart > 0 && !cc.Temp {
		root, err = w.batchRoot(cc.Kind, addr, cc.BatchStart, cc.Dig)
	} else if cc.Kind == "array" {
		root, err = w.NewRootArray(addr, w.newTI(false))
	} else {
		root, err = w.NewRootMap(addr, w.newTI(false), cc.Dig)
	}
	if err != nil {
		return finish(err)
	}
	w.AddRoot(root)
	w.logOp("create root %s slab=%d", root, cc.Slab)
	if cc.Init != nil {
		cc.Init(w, root)
	}
	hist := cc.Hist
	phases := cc.Phases
	if phases == nil {
		phases = StandardPhases(cc.Ops)
	}
	for _, ph := range phases {
		for i := 0; i < ph.Ops; i++ {
			if err := w.Step(root, ph, &hist); err != nil {
				return finish(err)
			}
			if err := w.AfterOp(); err != nil {
				return finish(err)
			}
			if cc.PerOp != nil {
				if err := cc.PerOp(w, root); err != nil {
					return finish(err)
				}
			}
			if cc.CommitEvery > 0 && w.opCount%cc.CommitEvery == 0 {
				if err := w.CommitAndCheck(cc.Relaxed, cc.Workers); err != nil {
					return finish(err)
				}
				if cc.AfterCommit != nil {
					if err := cc.AfterCommit(w, root); err != nil {
						return finish(err)
					}
				}
				ncommit := w.opCount / cc.CommitEvery
				if cc.ReopenEvery > 0 && ncommit%cc.ReopenEvery == 0 && len(w.detached) == 0 {
					if err := w.Reopen(); err != nil {
						return finish(err)
					}
				} else if cc.EvictEvery > 0 && ncommit%cc.EvictEvery == 0 {
					w.DropCache()
				}
			}
		}
	}
	if cc.DrainAtEnd {
		// Emptying by single removals: every merge / borrow / root demotion on the way down to one empty slab happens
		// inside a Remove (the drain phase of the standard histories usually ends in a bulk pop or before the tree is empty).
		w.logOp("-- drain by single removals")
		for guard := 0; guard < 200000; guard++ {
			var err error
			if root.Kind == KArr {
				if len(root.Elems) == 0 {
					break
				}
				err = w.OpArrayRemove(root, w.pickIndex(root, false, w.bounds))
			} else {
				k := w.existingKey(root)
				if k == nil {
					break
				}
				err = w.OpMapRemove(root, k)
			}
			if err == nil {
				err = w.AfterOp()
			}
			if err == nil && cc.PerOp != nil {
				err = cc.PerOp(w, root)
			}
			if err != nil {
				return finish(err)
			}
		}
		w.stats.Extra["drains-by-single-removals"]++
		if cc.DrainedIsOneSlab {
			wk := NewWalker(liveGetter(w.ps), w.ps, w.cb)
			if e := wk.WalkRootID(rootID(root), root, root.Dig); e != nil {
				return finish(viol("tree", "%v", e))
			} else if wk.Stats.Slabs != 1 {
				return finish(viol("drain-leak", "a container emptied by single removals occupies %d slabs", wk.Stats.Slabs))
			}
			if err := w.CheckTree(true); err != nil {
				return finish(err)
			}
		}
		for i := 0; i < 40; i++ {
			if err := w.Step(root, PhaseGrow, &hist); err != nil {
				return finish(err)
			}
			if err := w.AfterOp(); err != nil {
				return finish(err)
			}
		}
	}
	// final quiescent checks
	if err := w.CheckTree(true); err != nil {
		return finish(err)
	}
	if err := w.CheckDeep(); err != nil {
		return finish(err)
	}
	if err := w.CheckRef(); err != nil {
		return finish(err)
	}
	if !cc.Temp {
		if err := w.CommitAndCheck(cc.Relaxed, cc.Workers); err != nil {
			return finish(err)
		}
	}
	if cc.Final != nil {
		cc.Final(w, root, res)
	}
	return finish(nil)
}

// batchRoot creates the root of a history with the batch constructor: n generated scalars whose sizes follow the case's
// profile, the last few biased towards tiny / large so that the builder's close-out (lend, borrow, merge of the last
// slab at every level) is exercised. The history then continues on that container like on any other.
func (w *World) batchRoot(kind string, addr atree.Address, n int, dig *DigProfile) (*Node, error) {
	th := atree.VerifThresholds()
	w.logOp("root built by the batch constructor from %d elements", n)
	w.stats.Extra["roots-built-by-batch-constructor"]++
	ti := w.newTI(false)
	// element sizes as in the mini streams of C17: every element of a short stream, and the last 2-14 elements of a long
	// one (behind filler of half-limit elements), is drawn from {tiny, 40 bytes, a third, 45 %, half, limit-1, limit}
	miniFrom := 0
	if n > 14 {
		miniFrom = n - 2 - w.rng.Intn(13)
	}
	tail := func(i int, limit uint32) *Node {
		lim := int(limit)
		if i < miniFrom {
			return &Node{Kind: KStr, S: w.strOfByteSize(lim/2 + w.rng.Intn(4))}
		}
		sz := []int{3, 40, lim / 3, lim * 45 / 100, lim / 2, lim - 1, lim}[w.rng.Intn(7)]
		if sz <= 3 {
			return &Node{Kind: KU8, U: uint64(i % 200)}
		}
		return &Node{Kind: KStr, S: w.strOfByteSize(sz)}
	}
	if kind == "array" {
		stream := make([]*Node, n)
		for i := range stream {
			stream[i] = tail(i, th.MaxInlineArrayElementSize)
		}
		i := 0
		arr, err := atree.NewArrayFromBatchData(w.st, addr, ti, func() (atree.Value, error) {
			if i == len(stream) {
				return nil, nil
			}
			v := scalarValue(stream[i])
			i++
			return v, nil
		})
		if err != nil {
			return nil, viol("bulk-build", "NewArrayFromBatchData(%d elements) failed: %v", n, err)
		}
		w.nextNID++
		return &Node{Kind: KArr, TI: ti, Arr: arr, VID: arr.ValueID(), Addr: addr, nid: w.nextNID, Elems: stream}, nil
	}
	// maps are built from a source map (the constructor takes the source's seed and order)
	saveTrace := w.traceOn
	w.traceOn = false
	src, err := w.NewRootMap(addr, ti, dig)
	if err != nil {
		w.traceOn = saveTrace
		return nil, err
	}
	for i := 0; i < n; i++ {
		k := &Node{Kind: KU64, U: uint64(i)}
		if err := w.OpMapSet(src, k, tail(i, mapValueLimit(k))); err != nil {
			w.traceOn = saveTrace
			return nil, err
		}
	}
	w.traceOn = saveTrace
	it, err := src.Map.ReadOnlyIterator()
	if err != nil {
		return nil, viol("bulk-build", "source iterator: %v", err)
	}
	w.nextNID++
	cp := &Node{Kind: KMap, TI: ti, Addr: addr, M: map[string]*Entry{}, Dig: dig, nid: w.nextNID}
	bm, err := atree.NewMapFromBatchData(w.st, addr, w.builderFor(cp), ti, w.cb.Compare, w.cb.HashInput, src.Map.Seed(),
		func() (atree.Value, atree.Value, error) {
			k, v, err := it.Next()
			if err != nil || k == nil {
				return nil, nil, err
			}
			return k, v, nil
		})
	if err != nil {
		return nil, viol("bulk-build", "NewMapFromBatchData(%d entries) failed: %v", len(src.M), err)
	}
	for ks, e := range src.M {
		cp.M[ks] = &Entry{Key: cloneModel(e.Key), Val: cloneModel(e.Val), Seq: e.Seq}
	}
	cp.seq = src.seq
	cp.Map = bm
	cp.VID = bm.ValueID()
	id := rootID(src)
	dropHandles(src, true)
	if err := w.dispose(atree.SlabIDStorable(id)); err != nil {
		return nil, err
	}
	return cp, nil
}

// CommitAndCheck commits and, when configured, runs the cold monitors on the registers.
func (w *World) CommitAndCheck(relaxed bool, workers int) error {
	if workers <= 0 {
		workers = 1 + w.rng.Intn(4)
	}
	if err := w.Commit(relaxed, workers); err != nil {
		return err
	}
	if len(w.led.QuietViolations) > 0 {
		return viol("quiet", "%s", w.led.QuietViolations[0])
	}
	if w.mon.ColdAtCommit {
		live := w.allLive()
		ids := make([]atree.SlabID, 0, len(live))
		owned := make([]*Node, 0, len(live))
		for _, n := range live {
			if err := w.handle(n); err != nil {
				return err
			}
			if n.Addr == atree.AddressUndefined {
				continue
			}
			owned = append(owned, n)
			ids = append(ids, rootID(n))
		}
		regs := w.led.Snapshot()
		if err := w.CheckCold(regs, owned, ids, owned, true); err != nil {
			return err
		}
		if w.mon.SizeEvery > 0 {
			if err := w.CheckRegisters(regs); err != nil {
				return err
			}
			w.dirty = make(map[atree.SlabID]struct{})
		}
	}
	if w.mon.HealthAtCommit {
		nroots := 0
		for _, n := range w.allLive() {
			if n.Addr != atree.AddressUndefined {
				nroots++
			}
		}
		// load everything reachable so the health check sees all slabs
		if _, err := atree.CheckStorageHealth(w.ps, -1); err != nil {
			return viol("health", "CheckStorageHealth after a commit of a valid history failed: %v", err)
		}
		_ = nroots
	}
	return nil
}

func init() {
	register(&Prop{
		ID:    "C01",
		Level: "exploration",
		Rule: "cases = seeded operation histories (append/insert/set/remove/get/settype/popiterate incl. out-of-range requests, nested containers, strings around the inline limit and larger than a slab) " +
			"on one root array, slab size per case from {256,512,1024,32768,random}; every return value compared with a Go slice model after every operation, " +
			"structure walked after every operation, API deep-compare on fresh handles, cold reopen by root id after commits. " +
			"non-trivial = the array spanned >=3 slabs at depth >=2 and the storage proxy saw >=1 operation that created tree slabs and >=1 that removed slabs; distinct by hash(config, operation list). " +
			"Every 43rd case is a DEEP-TREE case (slab size 256..300 incl. sizes whose index slabs split at an even child count, thousands of small elements, depth >= 4). " +
			"The last 32 cases are a SMALL-SCOPE EXHAUSTIVE exploration at slab size 256: every sequence of 4 (quick) / 5 (thorough) operations over a 13-operation alphabet (append tiny / third / maximal / maximal+1-byte element, insert front / middle, set middle, remove front / middle / back) from 3 start states, with model, structure, reachability, byte-level and API deep comparison after every operation and a cold rebuild at the end of every sequence",
		Assumptions: []string{
			"one canonical handle per container (a client that caches one object per value id); handles of descendants are re-acquired after a parent handle is refreshed",
			"elements are test_utils scalar/string/wrapper values and nested atree containers; type infos use CBOR tags outside atree's reserved range",
			"verdict covers only the generated histories (exploration, not proof)",
		},
		Cases: func(tier string) int {
			if tier == "thorough" {
				return 16*160 + ssParts
			}
			return 16*40 + ssParts
		},
		Run:           runC01,
		MinNonTrivial: 8,
		Mandatory:     []string{"ops_that_created_slabs", "ops_that_removed_slabs", "cold_reopens", "rejected_requests", "small-scope-sequences-array", "deep-tree-cases-depth>=4"},
	})
	register(&Prop{
		ID:    "C02",
		Level: "exploration",
		Rule: "cases = seeded operation histories (set/update/remove/get/has/settype/popiterate incl. absent keys next to present ones, keys of every scalar kind, strings around the key inline limit, wrapped keys, nested containers as values) " +
			"on one root map under the default digester or an order-revealing harness digester; every return value compared with a Go map model after every operation, structure walked after every operation (incl. digest-of-key = filing position), cold reopen after commits. " +
			"non-trivial = the map spanned >=3 slabs, >=1 slab-creating and >=1 slab-removing operation, >=1 absent-key lookup; distinct by hash(config, operation list). " +
			"Every 43rd case is a DEEP-TREE case (as in C01). " +
			"The last 32 cases are a SMALL-SCOPE EXHAUSTIVE exploration at slab size 256: every sequence of 3 (quick) / 4 (thorough) operations over an 18-operation alphabet (set tiny / set maximal / remove for each of 6 keys whose digests collide on level 0, on levels 0+1, or not at all) from 3 start states, with the same monitors after every operation",
		Assumptions: []string{
			"one canonical handle per container; nested maps always use the default digester (the library re-creates them that way)",
			"verdict covers only the generated histories (exploration, not proof)",
		},
		Cases: func(tier string) int {
			if tier == "thorough" {
				return 16*70 + ssParts
			}
			return 16*20 + ssParts
		},
		Run:           runC02,
		MinNonTrivial: 8,
		Mandatory:     []string{"ops_that_created_slabs", "ops_that_removed_slabs", "cold_reopens", "absent-get", "small-scope-sequences-map", "deep-tree-cases-depth>=4"},
	})
}

func basicCase(c *CaseCtx, kind string) *ContCase {
	r := rand.New(rand.NewSource(c.CaseSeed() ^ 0x5eed))
	cc := &ContCase{Kind: kind}
	cc.Slab = pickSlab(r, c.Case)
	cc.Prof = DefaultValProfile()
	ops := 500
	if c.Tier == "thorough" {
		ops = 800 + r.Intn(2500)
	}
	switch c.Case % 5 {
	case 0: // many small scalars: deep trees at small slab sizes
		cc.Prof.Sizes = "small"
		cc.Prof.PContainer = 3
		cc.Prof.MaxDepth = 1
		ops = ops * 3
	case 1:
		cc.Prof.Sizes = "mixed"
	case 2:
		cc.Prof.Sizes = "hostile"
		cc.Prof.PContainer = 8
	case 3: // nesting heavy; removed / overwritten children are sometimes kept and mutated through their old handle
		cc.Prof.Sizes = "mixed"
		cc.Prof.PContainer = 30
		cc.Prof.MaxDepth = 3
		cc.Prof.PSome = 25
		cc.Prof.Composite = true
		cc.Prof.CompositeFlip = true
		cc.PerOp = newDetachedPlay(3, 50, 30).PerOp
	case 4: // big elements at medium slabs: many leaves under one index slab
		cc.Prof.Sizes = "hostile"
		cc.Prof.PContainer = 0
		cc.Prof.MaxDepth = 0
		if cc.Slab > 2048 {
			cc.Slab = 512 + uint32(r.Intn(2))*512
		}
		ops = ops * 2
	}
	cc.Ops = ops
	cc.Hist = HistCfg{DescendPct: 25, PopOnChild: true, InvalidPct: 6}
	cc.Mon = MonCfg{TreeEvery: 1, DeepEvery: 97, RefEvery: 131, ReachEvery: 13, ColdAtCommit: true, DirtyEvery: 7}
	if ops > 1500 {
		cc.Mon.TreeEvery = 3
		cc.Mon.ReachEvery = 39
	}
	cc.CommitEvery = []int{0, 1, 7, 50, 200}[r.Intn(5)]
	if cc.CommitEvery == 1 && ops > 700 {
		cc.CommitEvery = 9
	}
	cc.Relaxed = r.Intn(3) == 0
	// cache evictions and full reopens between the operations: nested containers are then decoded (not the objects the
	// history built), which is where shared decode-time state would show
	if cc.CommitEvery > 0 && cc.CommitEvery <= 50 {
		cc.EvictEvery = []int{0, 1, 2, 3}[r.Intn(4)]
		cc.ReopenEvery = []int{0, 0, 4, 3}[r.Intn(4)]
	}
	cc.DrainAtEnd = c.Case%3 == 0
	if c.Case%7 == 6 {
		cc.BatchStart = []int{2, 3, 4, 5, 6, 7, 9, 12, 40, 150}[r.Intn(10)]
	}
	return cc
}

const ssParts = 32

func basicCount(prop, tier string) int {
	return registry[prop].Cases(tier) - ssParts
}

func runC01(c *CaseCtx) *CaseResult {
	if base := basicCount("C01", c.Tier); c.Case >= base {
		depth := 4
		if c.Tier == "thorough" {
			depth = 5
		}
		return runSmallScope(c, "array", depth, c.Case-base, ssParts)
	}
	if c.Case%43 == 42 {
		// deep trees (depth >= 4, index slabs splitting / merging / borrowing among themselves)
		res, _ := runDeepCase(c, "array", rand.New(rand.NewSource(c.CaseSeed()^0xdee9)))
		return res
	}
	if c.Case%43 == 41 {
		// a tree of three or more levels that collapses (and regrows) through overwrites alone
		return runDeflateCase(c, "array", rand.New(rand.NewSource(c.CaseSeed()^0xdef1)))
	}
	cc := basicCase(c, "array")
	if c.Case%11 == 10 {
		// drain with bulk pop and regrow
		cc.Phases = scalePhases(cc.Ops, []Phase{PhaseGrow, {Name: "pop", Insert: 5, Set: 5, Remove: 5, Read: 5, Meta: 2, Pop: 6}, PhaseGrow, PhaseShrink}, []int{40, 10, 30, 20})
	}
	res, w, _ := runContainerCase(c, cc)
	s := w.stats
	res.NonTrivial = s.MaxRootSlabs >= 3 && s.MaxDepth >= 2 && s.Splits > 0 && s.Merges > 0
	return res
}

func runC02(c *CaseCtx) *CaseResult {
	if base := basicCount("C02", c.Tier); c.Case >= base {
		depth := 3
		if c.Tier == "thorough" {
			depth = 4
		}
		return runSmallScope(c, "map", depth, c.Case-base, ssParts)
	}
	if c.Case%43 == 42 {
		res, w := runDeepCase(c, "map", rand.New(rand.NewSource(c.CaseSeed()^0xdee9)))
		res.NonTrivial = res.NonTrivial && w.stats.Extra["absent-get"]+w.stats.Extra["absent-has"] > 0
		return res
	}
	if c.Case%43 == 41 {
		return runDeflateCase(c, "map", rand.New(rand.NewSource(c.CaseSeed()^0xdef1)))
	}
	cc := basicCase(c, "map")
	r := rand.New(rand.NewSource(c.CaseSeed() ^ 0xd16))
	if c.Case%3 == 1 {
		cc.Dig = &DigProfile{Salt: uint64(r.Int63()), OrderRevealing: true}
		cc.Prof.KeySpace = 300
	}
	if c.Case%6 == 5 {
		// the library's own default digester with a hash-input provider that covers only part of the key: keys of one
		// class collide on all four levels (circlehash and blake3 as they are, pooled digesters included)
		cc.HipClasses = uint64(12 + r.Intn(120))
		cc.Prof.KeySpace = 500
		if c.Case%12 == 11 {
			// two classes only: hundreds of keys collide on ALL levels (more than the default limit of 255 entries per
			// first-level digest, which counts distinct second-level digests and therefore never applies here)
			cc.HipClasses = 2
			cc.Prof.KeySpace = 1500
			cc.Prof.Sizes = "small"
			cc.Prof.PContainer = 0
			cc.Prof.BigKeys = false
			cc.Ops = 1400
			cc.Phases = scalePhases(cc.Ops, []Phase{{Name: "grow", Insert: 90, Set: 3, Remove: 2, Read: 5}, PhaseChurn, PhaseShrink}, []int{60, 25, 15})
			cc.Mon.TreeEvery = 5
		}
	}
	if c.Case%6 == 2 {
		// "any hash distribution": moderately colliding digests (the systematic collision matrix is C12)
		cc.Dig = &DigProfile{Alpha: [4]uint64{uint64(20 + r.Intn(200)), uint64(2 + r.Intn(4)), 2, 0}, Salt: uint64(r.Int63())}
	}
	if c.Case%11 == 10 {
		cc.Phases = scalePhases(cc.Ops, []Phase{PhaseGrow, {Name: "pop", Insert: 5, Set: 5, Remove: 5, Read: 5, Meta: 2, Pop: 6}, PhaseGrow, PhaseShrink}, []int{40, 10, 30, 20})
	}
	res, w, _ := runContainerCase(c, cc)
	s := w.stats
	res.NonTrivial = s.MaxRootSlabs >= 3 && s.Splits > 0 && s.Merges > 0 && s.Extra["absent-get"]+s.Extra["absent-has"] > 0
	return res
}

var _ = fmt.Sprintf
