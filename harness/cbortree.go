package main

import (
	"encoding/binary"
	"math/rand"
)

// A minimal generic CBOR item tree, used by the C19 input generator to make inputs that stay WELL-FORMED CBOR but are
// semantically inconsistent (counts that disagree with lists, duplicated / missing elements, swapped tags, ...).
// Byte-level mutators almost never produce such inputs because a changed count makes the item ill-formed.

type cnode struct {
	major byte   // 0..7
	arg   uint64 // value / length / tag number / simple value
	width byte   // encoded width of the argument: 0 (in the head byte), 1, 2, 4, 8
	data  []byte // byte / text string content
	kids  []*cnode
	indef bool
}

// parseCBOR parses one item; ok=false on anything it does not understand (the input is then left to the byte mutators).
func parseCBOR(b []byte, depth int) (n *cnode, rest []byte, ok bool) {
	if len(b) == 0 || depth > 40 {
		return nil, nil, false
	}
	h := b[0]
	n = &cnode{major: h >> 5}
	ai := h & 31
	b = b[1:]
	switch {
	case ai < 24:
		n.arg = uint64(ai)
	case ai == 24:
		if len(b) < 1 {
			return nil, nil, false
		}
		n.arg, n.width, b = uint64(b[0]), 1, b[1:]
	case ai == 25:
		if len(b) < 2 {
			return nil, nil, false
		}
		n.arg, n.width, b = uint64(binary.BigEndian.Uint16(b)), 2, b[2:]
	case ai == 26:
		if len(b) < 4 {
			return nil, nil, false
		}
		n.arg, n.width, b = uint64(binary.BigEndian.Uint32(b)), 4, b[4:]
	case ai == 27:
		if len(b) < 8 {
			return nil, nil, false
		}
		n.arg, n.width, b = binary.BigEndian.Uint64(b), 8, b[8:]
	default:
		return nil, nil, false // indefinite lengths / reserved: not produced by the library
	}
	switch n.major {
	case 0, 1, 7:
		return n, b, true
	case 2, 3:
		if uint64(len(b)) < n.arg {
			return nil, nil, false
		}
		n.data = append([]byte(nil), b[:n.arg]...)
		return n, b[n.arg:], true
	case 4, 5:
		cnt := n.arg
		if n.major == 5 {
			cnt *= 2
		}
		if cnt > uint64(len(b)) {
			return nil, nil, false
		}
		for i := uint64(0); i < cnt; i++ {
			k, r, ok := parseCBOR(b, depth+1)
			if !ok {
				return nil, nil, false
			}
			n.kids = append(n.kids, k)
			b = r
		}
		return n, b, true
	case 6:
		k, r, ok := parseCBOR(b, depth+1)
		if !ok {
			return nil, nil, false
		}
		n.kids = []*cnode{k}
		return n, r, true
	}
	return nil, nil, false
}

func (n *cnode) head(out []byte, arg uint64) []byte {
	w := n.width
	need := byte(0)
	switch {
	case arg < 24:
		need = 0
	case arg <= 0xff:
		need = 1
	case arg <= 0xffff:
		need = 2
	case arg <= 0xffffffff:
		need = 4
	default:
		need = 8
	}
	if need > w {
		w = need // keep the original (possibly non-minimal) width unless the value no longer fits
	}
	m := n.major << 5
	switch w {
	case 0:
		return append(out, m|byte(arg))
	case 1:
		return append(out, m|24, byte(arg))
	case 2:
		return append(out, m|25, byte(arg>>8), byte(arg))
	case 4:
		var t [4]byte
		binary.BigEndian.PutUint32(t[:], uint32(arg))
		return append(append(out, m|26), t[:]...)
	}
	var t [8]byte
	binary.BigEndian.PutUint64(t[:], arg)
	return append(append(out, m|27), t[:]...)
}

func (n *cnode) encode(out []byte) []byte {
	switch n.major {
	case 0, 1, 7:
		return n.head(out, n.arg)
	case 2, 3:
		out = n.head(out, uint64(len(n.data)))
		return append(out, n.data...)
	case 4:
		out = n.head(out, uint64(len(n.kids)))
	case 5:
		out = n.head(out, uint64(len(n.kids)/2))
	case 6:
		out = n.head(out, n.arg)
	}
	for _, k := range n.kids {
		out = k.encode(out)
	}
	return out
}

func (n *cnode) clone() *cnode {
	c := *n
	c.data = append([]byte(nil), n.data...)
	c.kids = make([]*cnode, len(n.kids))
	for i, k := range n.kids {
		c.kids[i] = k.clone()
	}
	return &c
}

func (n *cnode) collect(all *[]*cnode) {
	*all = append(*all, n)
	for _, k := range n.kids {
		k.collect(all)
	}
}

// registerTree is a register split into head, leading CBOR items (extra data, inlined extra data), an optional raw
// 16-byte sibling link, and the content item.
type registerTree struct {
	head   [2]byte
	lead   []*cnode
	next   []byte
	body   *cnode
	suffix []byte
}

func parseRegisterTree(data []byte) (*registerTree, bool) {
	h, err := parseHead(data)
	if err != nil || h.version != 1 {
		return nil, false
	}
	if h.kind != "array-data" && h.kind != "map-data" && h.kind != "map-collision" && h.kind != "storable" {
		return nil, false
	}
	t := &registerTree{head: [2]byte{data[0], data[1]}}
	rest := data[2:]
	lead := 0
	if h.root && h.kind != "storable" {
		lead++
	}
	if h.hasInlined {
		lead++
	}
	for i := 0; i < lead; i++ {
		n, r, ok := parseCBOR(rest, 0)
		if !ok {
			return nil, false
		}
		t.lead = append(t.lead, n)
		rest = r
	}
	if h.hasNext && h.kind != "storable" {
		if len(rest) < 16 {
			return nil, false
		}
		t.next, rest = rest[:16], rest[16:]
	}
	n, r, ok := parseCBOR(rest, 0)
	if !ok {
		return nil, false
	}
	t.body, t.suffix = n, r
	return t, true
}

func (t *registerTree) encode() []byte {
	out := append([]byte(nil), t.head[:]...)
	for _, n := range t.lead {
		out = n.encode(out)
	}
	out = append(out, t.next...)
	out = t.body.encode(out)
	return append(out, t.suffix...)
}

// mutateTree applies 1-3 structure-preserving edits. It returns a description of what it did.
func mutateTree(r *rand.Rand, t *registerTree) string {
	var all []*cnode
	for _, n := range t.lead {
		n.collect(&all)
	}
	t.body.collect(&all)
	var ints, arrays, tags, strs []*cnode
	for _, n := range all {
		switch n.major {
		case 0:
			ints = append(ints, n)
		case 4:
			arrays = append(arrays, n)
		case 6:
			tags = append(tags, n)
		case 2, 3:
			strs = append(strs, n)
		}
	}
	desc := ""
	pick := func(l []*cnode) *cnode {
		if len(l) == 0 {
			return nil
		}
		return l[r.Intn(len(l))]
	}
	n := 1 + r.Intn(3)
	for k := 0; k < n; k++ {
		switch r.Intn(10) {
		case 0: // integer +-1 / other integer of the register / extreme
			if x := pick(ints); x != nil {
				switch r.Intn(5) {
				case 0:
					x.arg++
				case 1:
					x.arg--
				case 2:
					if y := pick(ints); y != nil {
						x.arg = y.arg
					}
				case 3:
					x.arg = []uint64{0, 1, 255, 256, 65535, 1 << 31, 1<<64 - 1}[r.Intn(7)]
				case 4:
					if a := pick(arrays); a != nil {
						x.arg = uint64(len(a.kids))
					}
				}
				desc += "int,"
			}
		case 1, 2: // duplicate an element of an array
			if a := pick(arrays); a != nil && len(a.kids) > 0 && len(a.kids) < 4000 {
				i := r.Intn(len(a.kids))
				a.kids = append(a.kids[:i+1], append([]*cnode{a.kids[i].clone()}, a.kids[i+1:]...)...)
				desc += "dup-elem,"
			}
		case 3: // delete an element
			if a := pick(arrays); a != nil && len(a.kids) > 0 {
				i := r.Intn(len(a.kids))
				a.kids = append(a.kids[:i], a.kids[i+1:]...)
				desc += "del-elem,"
			}
		case 4: // swap two elements
			if a := pick(arrays); a != nil && len(a.kids) > 1 {
				i, j := r.Intn(len(a.kids)), r.Intn(len(a.kids))
				a.kids[i], a.kids[j] = a.kids[j], a.kids[i]
				desc += "swap-elem,"
			}
		case 5: // replace an element by a copy of some other node
			if a := pick(arrays); a != nil && len(a.kids) > 0 {
				a.kids[r.Intn(len(a.kids))] = all[r.Intn(len(all))].clone()
				desc += "graft,"
			}
		case 6: // tag number
			if x := pick(tags); x != nil {
				x.arg = uint64(atreeTags[r.Intn(len(atreeTags))])
				desc += "tag,"
			}
		case 7: // string length by whole digests / one byte
			if x := pick(strs); x != nil {
				switch r.Intn(4) {
				case 0:
					x.data = append(x.data, make([]byte, 8)...)
				case 1:
					if len(x.data) >= 8 {
						x.data = x.data[:len(x.data)-8]
					}
				case 2:
					x.data = append(x.data, 0)
				case 3:
					if len(x.data) > 0 {
						x.data = x.data[:len(x.data)-1]
					}
				}
				desc += "strlen,"
			}
		case 8, 9: // make a count agree with a list while a third party (keys, digests, values) still disagrees:
			// set an integer to the new length of an array after growing / shrinking that array by one
			a := pick(arrays)
			x := pick(ints)
			if a != nil && x != nil && len(a.kids) > 0 && len(a.kids) < 4000 {
				if r.Intn(2) == 0 {
					a.kids = append(a.kids, a.kids[len(a.kids)-1].clone())
				} else {
					a.kids = a.kids[:len(a.kids)-1]
				}
				// prefer integers whose value equalled the old length (counts)
				for tries := 0; tries < 8; tries++ {
					if y := pick(ints); y != nil && (y.arg == uint64(len(a.kids))+1 || y.arg+1 == uint64(len(a.kids))) {
						x = y
						break
					}
				}
				x.arg = uint64(len(a.kids))
				desc += "sync-count,"
			}
		}
	}
	return "tree:" + desc
}
