package main

import (
	"bytes"
	"errors"
	"fmt"
	"reflect"

	"github.com/fxamacker/cbor/v2"
	"github.com/onflow/atree"
	tu "github.com/onflow/atree/test_utils"
)

// rawHead is the harness' own reading of the two head bytes of a register.
type rawHead struct {
	version    byte
	hasNext    bool
	hasInlined bool
	root       bool
	hasPtr     bool
	anySize    bool
	kind       string // "array-data","array-meta","map-data","map-meta","map-collision","storable","?"
}

func parseHead(data []byte) (rawHead, error) {
	if len(data) < 2 {
		return rawHead{}, fmt.Errorf("register shorter than its head")
	}
	h := rawHead{
		version:    data[0] >> 4,
		hasNext:    data[0]&0x02 != 0,
		hasInlined: data[0]&0x01 != 0,
		root:       data[1]&0x80 != 0,
		hasPtr:     data[1]&0x40 != 0,
		anySize:    data[1]&0x20 != 0,
	}
	switch data[1] & 0x1f {
	case 0x00:
		h.kind = "array-data"
	case 0x01:
		h.kind = "array-meta"
	case 0x08:
		h.kind = "map-data"
	case 0x09:
		h.kind = "map-meta"
	case 0x0b:
		h.kind = "map-collision"
	case 0x1f:
		h.kind = "storable"
	default:
		h.kind = "?"
	}
	return h, nil
}

// nextItemLen returns the byte length of the first CBOR data item in b.
func nextItemLen(b []byte) (int, error) {
	dec := cbor.NewStreamDecoder(bytes.NewReader(b))
	raw, err := dec.DecodeRawBytes()
	if err != nil {
		return 0, err
	}
	return len(raw), nil
}

// registerSections splits a register into head | extra data | inlined extra data | rest.
func registerSections(data []byte) (h rawHead, extraLen, inlinedLen int, err error) {
	h, err = parseHead(data)
	if err != nil {
		return
	}
	rest := data[2:]
	if h.root {
		extraLen, err = nextItemLen(rest)
		if err != nil {
			return h, 0, 0, fmt.Errorf("extra data section: %v", err)
		}
		rest = rest[extraLen:]
	}
	if h.hasInlined {
		inlinedLen, err = nextItemLen(rest)
		if err != nil {
			return h, 0, 0, fmt.Errorf("inlined extra data section: %v", err)
		}
	}
	return
}

func cborHeadLen(n uint64) uint32 {
	switch {
	case n <= 23:
		return 1
	case n <= 0xff:
		return 2
	case n <= 0xffff:
		return 3
	case n <= 0xffffffff:
		return 5
	}
	return 9
}

// compactSaving computes, from the live content, how many bytes the shared compact form of
// same-typed inlined composite maps hoists out of the element bytes of this storable (recursively).
// It also reports how many compact maps were found.
func compactSaving(s atree.Storable) (saving uint32, compact int) {
	inner, _ := unwrapSomeStorable(s)
	slab, ok := inner.(atree.Slab)
	if !ok {
		return 0, 0
	}
	vi := atree.VerifSlabInfo(slab)
	if vi == nil {
		return 0, 0
	}
	switch vi.Kind {
	case "array-data":
		for _, e := range vi.ArrayElements {
			s2, c2 := compactSaving(e)
			saving += s2
			compact += c2
		}
	case "map-data":
		saving, compact = elementsSaving(vi.MapElements)
		if vi.Inlined && isCompactCandidate(vi) {
			n := uint64(len(vi.MapElements.Elems))
			sv := uint32(szHkeyElementsPrefix)
			for _, e := range vi.MapElements.Elems {
				sv += szDigest + szSingleElementPrefix + e.Key.ByteSize()
			}
			sv -= cborHeadLen(n)
			saving += sv
			compact++
		}
	}
	return
}

func elementsSaving(el *atree.VerifElements) (saving uint32, compact int) {
	if el == nil {
		return
	}
	for _, e := range el.Elems {
		switch e.Kind {
		case "single":
			s1, c1 := compactSaving(e.Key)
			s2, c2 := compactSaving(e.Value)
			saving += s1 + s2
			compact += c1 + c2
		case "inline-group":
			s1, c1 := elementsSaving(e.Group)
			saving += s1
			compact += c1
		}
	}
	return
}

// isCompactCandidate mirrors the documented condition for the compact form: inlined map with a
// composite type, no collision groups, keys stored inline and comparable.
func isCompactCandidate(vi *atree.VerifSlab) bool {
	t, ok := vi.TypeInfo.(atree.TypeInfo)
	if !ok || t == nil || !t.IsComposite() {
		return false
	}
	el := vi.MapElements
	if el == nil || !el.Hkeyed {
		return false
	}
	for _, e := range el.Elems {
		if e.Kind != "single" {
			return false
		}
		if _, isRef := e.Key.(atree.SlabIDStorable); isRef {
			return false
		}
		if _, ok := e.Key.(atree.ComparableStorable); !ok {
			return false
		}
	}
	return true
}

func slabSaving(vi *atree.VerifSlab) (uint32, int) {
	switch vi.Kind {
	case "array-data":
		var s uint32
		var c int
		for _, e := range vi.ArrayElements {
			s2, c2 := compactSaving(e)
			s += s2
			c += c2
		}
		return s, c
	case "map-data":
		return elementsSaving(vi.MapElements)
	}
	return 0, 0
}

// hasReference: does the storable (through wrappers and inlined containers) hold a reference to another slab?
func hasReference(s atree.Storable) bool {
	inner, _ := unwrapSomeStorable(s)
	switch x := inner.(type) {
	case atree.SlabIDStorable:
		return true
	case atree.Slab:
		vi := atree.VerifSlabInfo(x)
		if vi == nil {
			return false
		}
		return slabHasReference(vi)
	}
	return false
}

func slabHasReference(vi *atree.VerifSlab) bool {
	switch vi.Kind {
	case "array-data":
		for _, e := range vi.ArrayElements {
			if hasReference(e) {
				return true
			}
		}
	case "map-data":
		return elementsHaveReference(vi.MapElements)
	case "storable":
		return hasReference(vi.Storable)
	}
	return false
}

func elementsHaveReference(el *atree.VerifElements) bool {
	if el == nil {
		return false
	}
	for _, e := range el.Elems {
		switch e.Kind {
		case "single":
			if hasReference(e.Key) || hasReference(e.Value) {
				return true
			}
		case "inline-group":
			if elementsHaveReference(e.Group) {
				return true
			}
		case "external-group":
			return true
		}
	}
	return false
}

func encodeStorableAlone(s atree.Storable) ([]byte, error) {
	var buf bytes.Buffer
	enc := atree.NewEncoder(&buf, cborEncMode)
	if err := s.Encode(enc); err != nil {
		return nil, err
	}
	if err := enc.CBOR.Flush(); err != nil {
		return nil, err
	}
	return buf.Bytes(), nil
}

type sizeStats struct {
	slabs, elements, compactEq, roots, nonroots, noNext, groups int
}

// CheckSlabBytes is M-size + M-rt for one standalone slab.
// errEncodeRefused: the library refused to encode the slab because of the 256-entry limit (World.TolerateInlineLimit).
var errEncodeRefused = errors.New("verif: encoding refused (more than 256 inlined extra-data entries)")

func CheckSlabBytes(slab atree.Slab, st *sizeStats) error {
	id := slab.SlabID()
	vi := atree.VerifSlabInfo(slab)
	if vi == nil {
		return fmt.Errorf("slab %s: unknown type %T", id, slab)
	}
	data, err := atree.EncodeSlab(slab, cborEncMode)
	if err != nil {
		if isInlineLimitRefusal(err) {
			return errEncodeRefused
		}
		return fmt.Errorf("slab %s does not encode: %v", id, err)
	}
	return checkRegisterAgainstLive(id, data, slab, vi, st)
}

func checkRegisterAgainstLive(id atree.SlabID, data []byte, slab atree.Slab, vi *atree.VerifSlab, st *sizeStats) error {
	st.slabs++
	h, extraLen, inlinedLen, err := registerSections(data)
	if err != nil {
		return fmt.Errorf("slab %s: %v", id, err)
	}
	// ---- M-size: reported size == bytes written (modulo the two documented savings)
	written := len(data) - extraLen - inlinedLen
	isData := h.kind == "array-data" || h.kind == "map-data" || h.kind == "map-collision"
	if !h.root && isData && !h.hasNext {
		written += 16
		st.noNext++
	}
	if h.root {
		st.roots++
	} else {
		st.nonroots++
	}
	saving, compact := slabSaving(vi)
	reported := int(slab.ByteSize())
	if written+int(saving) != reported {
		return fmt.Errorf("slab %s (%s): reports %d bytes, encoding has %d (register %d - extra data %d - inlined extra data %d, sibling-link adjustment %v, compact saving %d over %d compact maps)",
			id, vi.Kind, reported, written, len(data), extraLen, inlinedLen, !h.root && isData && !h.hasNext, saving, compact)
	}
	st.compactEq += compact

	// ---- flags (C07)
	if h.version != 1 {
		return fmt.Errorf("slab %s: encoded with version %d", id, h.version)
	}
	if h.root != vi.HasExtraData {
		return fmt.Errorf("slab %s: root flag %v but extra data present %v", id, h.root, vi.HasExtraData)
	}
	wantKind := vi.Kind
	if vi.Kind == "map-data" && vi.CollisionGroup {
		wantKind = "map-collision"
	}
	if h.kind != wantKind {
		return fmt.Errorf("slab %s: head says %s, slab is %s", id, h.kind, wantKind)
	}
	wantAny := vi.Kind == "storable" || vi.AnySize
	if h.anySize != wantAny {
		return fmt.Errorf("slab %s (%s): size-limited flag says %v, want %v", id, wantKind, !h.anySize, !wantAny)
	}
	if vi.Kind == "array-data" || vi.Kind == "map-data" || vi.Kind == "storable" {
		if want := slabHasReference(vi); h.hasPtr != want {
			return fmt.Errorf("slab %s (%s): has-references flag %v, content %v", id, wantKind, h.hasPtr, want)
		}
	}
	if (vi.Kind == "array-data" || vi.Kind == "map-data") && h.hasNext != (vi.Next != atree.SlabIDUndefined) {
		return fmt.Errorf("slab %s: has-next flag %v, sibling link %s", id, h.hasNext, vi.Next)
	}
	bq, e1 := atree.IsRootOfAnObject(data)
	pq, e2 := atree.HasPointers(data)
	sq, e3 := atree.HasSizeLimit(data)
	if e1 != nil || e2 != nil || e3 != nil {
		return fmt.Errorf("slab %s: header queries failed: %v %v %v", id, e1, e2, e3)
	}
	if bq != h.root || pq != h.hasPtr || sq != !h.anySize {
		return fmt.Errorf("slab %s: header queries (%v,%v,%v) disagree with raw bits (%v,%v,%v)", id, bq, pq, sq, h.root, h.hasPtr, !h.anySize)
	}

	// ---- M-rt: decode, re-encode, compare
	dec, err := atree.DecodeSlab(id, data, cborDecMode, decodeStorable, decodeTypeInfo)
	if err != nil {
		return fmt.Errorf("slab %s: own encoding does not decode: %v", id, err)
	}
	if dec.ByteSize() != slab.ByteSize() {
		return fmt.Errorf("slab %s (%s): decoded slab reports %d bytes, live slab %d", id, vi.Kind, dec.ByteSize(), slab.ByteSize())
	}
	re, err := atree.EncodeSlab(dec, cborEncMode)
	if err != nil {
		return fmt.Errorf("slab %s: decoded slab does not re-encode: %v", id, err)
	}
	if !bytes.Equal(re, data) {
		return fmt.Errorf("slab %s (%s): re-encoding the decoded slab gives different bytes (%d vs %d)", id, vi.Kind, len(re), len(data))
	}
	dvi := atree.VerifSlabInfo(dec)
	if dvi == nil {
		return fmt.Errorf("slab %s: decoded to unknown type %T", id, dec)
	}
	if err := slabInfoEqual(vi, dvi, "slab "+id.String()); err != nil {
		return fmt.Errorf("decoded content differs from live content: %v", err)
	}

	// ---- inline element sizes
	return checkElementSizes(vi, st)
}

func checkElementSizes(vi *atree.VerifSlab, st *sizeStats) error {
	switch vi.Kind {
	case "array-data":
		for i, e := range vi.ArrayElements {
			if err := checkStorableSize(e, fmt.Sprintf("slab %s element %d", vi.ID, i), st); err != nil {
				return err
			}
		}
	case "map-data":
		return checkElementsSizes(vi.MapElements, "slab "+vi.ID.String(), st)
	case "storable":
		return checkStorableSize(vi.Storable, "slab "+vi.ID.String()+" storable", st)
	}
	return nil
}

func checkElementsSizes(el *atree.VerifElements, path string, st *sizeStats) error {
	if el == nil {
		return nil
	}
	for _, e := range el.Elems {
		switch e.Kind {
		case "single":
			if err := checkStorableSize(e.Key, path+" key", st); err != nil {
				return err
			}
			if err := checkStorableSize(e.Value, path+" value", st); err != nil {
				return err
			}
		case "inline-group":
			st.groups++
			if err := checkElementsSizes(e.Group, path+" group", st); err != nil {
				return err
			}
		case "external-group":
			st.groups++
		}
	}
	return nil
}

func checkStorableSize(s atree.Storable, path string, st *sizeStats) error {
	st.elements++
	b, err := encodeStorableAlone(s)
	if err != nil {
		return fmt.Errorf("%s: does not encode alone: %v", path, err)
	}
	saving, _ := compactSaving(s)
	if len(b)+int(saving) != int(s.ByteSize()) {
		return fmt.Errorf("%s (%T): reports %d bytes, encodes to %d (+%d compact saving)", path, s, s.ByteSize(), len(b), saving)
	}
	// recurse into inlined containers
	inner, _ := unwrapSomeStorable(s)
	if slab, ok := inner.(atree.Slab); ok {
		if vi := atree.VerifSlabInfo(slab); vi != nil {
			return checkElementSizes(vi, st)
		}
	}
	return nil
}

// ---------------------------------------------------------------------------------------------
// content equality of two slab descriptions (live vs decoded)

func slabInfoEqual(a, b *atree.VerifSlab, path string) error {
	// documented exception: a same-typed inlined composite map decoded from the shared compact form may
	// adopt the shared seed and internal order (hence also another first digest)
	compact := a.Kind == "map-data" && a.Inlined && isCompactCandidate(a)
	if a.Kind != b.Kind || a.ID != b.ID || a.HasExtraData != b.HasExtraData || a.Inlined != b.Inlined ||
		a.AnySize != b.AnySize || a.CollisionGroup != b.CollisionGroup || a.Next != b.Next || a.Size != b.Size ||
		a.Count != b.Count || (a.FirstKey != b.FirstKey && !compact) {
		return fmt.Errorf("%s: header fields differ: %+v vs %+v", path, headerOf(a), headerOf(b))
	}
	if a.HasExtraData {
		ta, _ := tiOf(a.TypeInfo)
		tb, okb := tiOf(b.TypeInfo)
		if !okb || ta != tb {
			return fmt.Errorf("%s: type info %v vs %v", path, a.TypeInfo, b.TypeInfo)
		}
		if a.MapCount != b.MapCount {
			return fmt.Errorf("%s: map count %d vs %d", path, a.MapCount, b.MapCount)
		}
	}
	if a.HasExtraData && !compact && a.MapSeed != b.MapSeed {
		return fmt.Errorf("%s: map seed %d vs %d", path, a.MapSeed, b.MapSeed)
	}
	if !reflect.DeepEqual(a.Children, b.Children) && (len(a.Children) > 0 || len(b.Children) > 0) {
		return fmt.Errorf("%s: child headers differ", path)
	}
	if !reflect.DeepEqual(a.CountSums, b.CountSums) && (len(a.CountSums) > 0 || len(b.CountSums) > 0) {
		return fmt.Errorf("%s: cumulative counts differ", path)
	}
	if len(a.ArrayElements) != len(b.ArrayElements) {
		return fmt.Errorf("%s: %d vs %d elements", path, len(a.ArrayElements), len(b.ArrayElements))
	}
	for i := range a.ArrayElements {
		if err := storableEqual(a.ArrayElements[i], b.ArrayElements[i], fmt.Sprintf("%s[%d]", path, i)); err != nil {
			return err
		}
	}
	if (a.MapElements == nil) != (b.MapElements == nil) {
		return fmt.Errorf("%s: elements presence differs", path)
	}
	if a.MapElements != nil {
		if compact {
			return compactContentEqual(a.MapElements, b.MapElements, path)
		}
		if err := elementsEqual(a.MapElements, b.MapElements, path); err != nil {
			return err
		}
	}
	if a.Kind == "storable" {
		return storableEqual(a.Storable, b.Storable, path+".storable")
	}
	return nil
}

func headerOf(v *atree.VerifSlab) map[string]any {
	return map[string]any{"kind": v.Kind, "id": v.ID.String(), "extra": v.HasExtraData, "inlined": v.Inlined, "anySize": v.AnySize,
		"group": v.CollisionGroup, "next": v.Next.String(), "size": v.Size, "count": v.Count, "first": v.FirstKey}
}

func elementsEqual(a, b *atree.VerifElements, path string) error {
	if a.Hkeyed != b.Hkeyed || a.Level != b.Level || a.Size != b.Size || len(a.Elems) != len(b.Elems) {
		return fmt.Errorf("%s: element list (hkeyed %v level %d size %d n %d) vs (hkeyed %v level %d size %d n %d)", path,
			a.Hkeyed, a.Level, a.Size, len(a.Elems), b.Hkeyed, b.Level, b.Size, len(b.Elems))
	}
	if !reflect.DeepEqual(a.Hkeys, b.Hkeys) && (len(a.Hkeys) > 0 || len(b.Hkeys) > 0) {
		return fmt.Errorf("%s: digests differ", path)
	}
	for i := range a.Elems {
		x, y := a.Elems[i], b.Elems[i]
		if x.Kind != y.Kind || x.Size != y.Size || x.ExternalID != y.ExternalID {
			return fmt.Errorf("%s: element %d (%s,%d) vs (%s,%d)", path, i, x.Kind, x.Size, y.Kind, y.Size)
		}
		switch x.Kind {
		case "single":
			if err := storableEqual(x.Key, y.Key, fmt.Sprintf("%s.key[%d]", path, i)); err != nil {
				return err
			}
			if err := storableEqual(x.Value, y.Value, fmt.Sprintf("%s.value[%d]", path, i)); err != nil {
				return err
			}
		case "inline-group":
			if err := elementsEqual(x.Group, y.Group, fmt.Sprintf("%s.group[%d]", path, i)); err != nil {
				return err
			}
		}
	}
	return nil
}

// compactContentEqual: same key -> value content; seed, digests and order may be the shared ones.
func compactContentEqual(a, b *atree.VerifElements, path string) error {
	if len(a.Elems) != len(b.Elems) {
		return fmt.Errorf("%s: compact map has %d vs %d entries", path, len(a.Elems), len(b.Elems))
	}
	if a.Size != b.Size {
		return fmt.Errorf("%s: compact map elements size %d vs %d", path, a.Size, b.Size)
	}
	idx := make(map[string]atree.VerifElement, len(b.Elems))
	for _, e := range b.Elems {
		if e.Kind != "single" {
			return fmt.Errorf("%s: decoded compact map holds a %s", path, e.Kind)
		}
		ks, ok := e.Key.(tu.StringValue)
		if !ok {
			return fmt.Errorf("%s: decoded compact map key of type %T", path, e.Key)
		}
		idx[ks.String()] = e
	}
	for _, e := range a.Elems {
		ks, ok := e.Key.(tu.StringValue)
		if !ok {
			return fmt.Errorf("%s: compact map key of type %T", path, e.Key)
		}
		d, ok := idx[ks.String()]
		if !ok {
			return fmt.Errorf("%s: key %q lost by the compact form", path, ks.String())
		}
		if err := storableEqual(e.Value, d.Value, path+"."+ks.String()); err != nil {
			return err
		}
	}
	return nil
}

func storableEqual(a, b atree.Storable, path string) error {
	ia, na := unwrapSomeStorable(a)
	ib, nb := unwrapSomeStorable(b)
	if na != nb {
		return fmt.Errorf("%s: %d vs %d wrapper levels", path, na, nb)
	}
	sa, oka := ia.(atree.Slab)
	sb, okb := ib.(atree.Slab)
	if oka != okb {
		return fmt.Errorf("%s: %T vs %T", path, ia, ib)
	}
	if oka {
		va, vb := atree.VerifSlabInfo(sa), atree.VerifSlabInfo(sb)
		if va == nil || vb == nil {
			return fmt.Errorf("%s: unknown inlined slab", path)
		}
		return slabInfoEqual(va, vb, path)
	}
	if a.ByteSize() != b.ByteSize() {
		return fmt.Errorf("%s: sizes %d vs %d", path, a.ByteSize(), b.ByteSize())
	}
	if !reflect.DeepEqual(ia, ib) {
		return fmt.Errorf("%s: %v (%T) vs %v (%T)", path, ia, ia, ib, ib)
	}
	return nil
}

// ---------------------------------------------------------------------------------------------

// checkSizesImpl runs M-size / M-rt on every slab dirtied since the last call.
func (w *World) checkSizesImpl() error {
	w.stats.SizeChecks++
	var st sizeStats
	for id := range w.dirty {
		slab := w.ps.RetrieveIfLoaded(id)
		if slab == nil {
			continue
		}
		if err := CheckSlabBytes(slab, &st); err != nil {
			if err == errEncodeRefused && w.TolerateInlineLimit {
				w.stats.Extra["encode-refusals-over-256-inlined-entries"]++
				continue
			}
			return viol("bytes", "%v", err)
		}
	}
	w.dirty = make(map[atree.SlabID]struct{})
	w.noteSizeStats(&st)
	return nil
}

func (w *World) noteSizeStats(st *sizeStats) {
	w.stats.Extra["bytes-slabs"] += st.slabs
	w.stats.Extra["bytes-elements"] += st.elements
	w.stats.Extra["bytes-compact-eq"] += st.compactEq
	w.stats.Extra["bytes-root"] += st.roots
	w.stats.Extra["bytes-nonroot"] += st.nonroots
	w.stats.Extra["bytes-no-next"] += st.noNext
	w.stats.Extra["bytes-groups"] += st.groups
}

// CheckRegisters is M-rt on committed registers: every register re-encodes identically, is truthful in its
// head, and matches the live slab the storage holds for it.
func (w *World) CheckRegisters(regs map[atree.SlabID][]byte) error {
	var st sizeStats
	for _, id := range sortedIDs(regs) {
		data := regs[id]
		live := w.ps.RetrieveIfLoaded(id)
		if live == nil {
			// not loaded: compare the register with itself through a decode
			dec, err := atree.DecodeSlab(id, data, cborDecMode, decodeStorable, decodeTypeInfo)
			if err != nil {
				return viol("bytes", "register %s does not decode: %v", id, err)
			}
			live = dec
		}
		vi := atree.VerifSlabInfo(live)
		if vi == nil {
			return viol("bytes", "register %s: unknown slab type %T", id, live)
		}
		if err := checkRegisterAgainstLive(id, data, live, vi, &st); err != nil {
			return viol("bytes", "register %v", err)
		}
	}
	w.stats.RegsChecked += len(regs)
	w.noteSizeStats(&st)
	return nil
}
