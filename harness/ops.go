package main

import (
	"errors"

	"github.com/onflow/atree"
)

// Every Op* function logs the operation, issues it through the canonical handle, compares every
// return value with the model (M-ret), updates the model, and returns a *Violation on mismatch.

// quickDepth follows the first-child chain of a root container through loaded slabs only (no side effect on the cache).
func (w *World) quickDepth(n *Node) int {
	var s atree.Slab
	if n.Kind == KArr && n.Arr != nil {
		s = atree.VerifArrayRoot(n.Arr)
	} else if n.Kind == KMap && n.Map != nil {
		s = atree.VerifMapRoot(n.Map)
	}
	d := 0
	for s != nil && d < 12 {
		d++
		si := atree.VerifSlabInfo(s)
		if si == nil || len(si.Children) == 0 {
			return d
		}
		s = w.ps.RetrieveIfLoaded(si.Children[0].ID)
		if s == nil {
			return 0 // not loaded: unknown
		}
	}
	return d
}

// noteEvents counts, per operation kind, the structural side effects the operation had on its (root) container:
// tree slabs created / removed and depth changes. Evidence only; the rare combinations (a removal that deepens the
// tree, an overwrite that removes a level, ...) are what directed cases are written for.
func (w *World) noteEvents() {
	n, name := w.curNode, w.curOp
	if n == nil || name == "" {
		return
	}
	if w.st.OpGenerates > 0 {
		w.stats.Extra["ev:"+name+":ids-allocated"]++
	}
	if w.st.OpRemoves > 0 {
		w.stats.Extra["ev:"+name+":slabs-removed"]++
	}
	// depth of the outermost container the operation's target lives in (an operation on a nested child can split or
	// demote the root of its ancestors)
	top, nested := n, ""
	for top.Parent != nil {
		top, nested = top.Parent, "(nested)"
	}
	if top.fp == nil && (top.Arr != nil || top.Map != nil) {
		if d := w.quickDepth(top); d > 0 {
			if top.lastDepth > 0 && d > top.lastDepth {
				w.stats.Extra["ev:"+name+nested+":depth+"]++
			} else if top.lastDepth > 0 && d < top.lastDepth {
				w.stats.Extra["ev:"+name+nested+":depth-"]++
			}
			top.lastDepth = d
		}
	}
	w.curNode, w.curOp = nil, ""
}

func (w *World) beginOp(n *Node, name string) error {
	w.opCount++
	w.stats.Ops[name]++
	w.curNode, w.curOp = n, name
	if w.mon.DirtyEvery > 0 && len(w.st.OpStoreIDs)+len(w.st.OpRemoveIDs) > 0 {
		// stores issued between two operations (disposal of returned values) belong to the previous one
		w.noteStored()
	}
	w.st.BeginOp()
	if n != nil {
		return w.handle(n)
	}
	return nil
}

// endOp accounts for slabs created / removed by the operation.
func (w *World) endOp() {
	w.noteEvents()
	w.stats.SlabsCreated += w.st.OpGenerates
	w.stats.SlabsRemoved += w.st.OpRemoves
	if w.st.OpGenerates > 0 {
		w.stats.Splits++
	}
	if w.st.OpRemoves > 0 {
		w.stats.Merges++
	}
	for _, id := range w.st.OpStoreIDs {
		w.dirty[id] = struct{}{}
	}
	if w.mon.DirtyEvery > 0 {
		w.noteStored()
	}
}

// noteStored records (M-dirty) the content of every slab stored / removed by the operation that just ended.
func (w *World) noteStored() {
	for _, id := range w.st.OpRemoveIDs {
		delete(w.shadow, id)
	}
	for _, id := range w.st.OpStoreIDs {
		s := w.ps.RetrieveIfLoaded(id)
		if s == nil {
			delete(w.shadow, id)
			continue
		}
		if b, err := atree.EncodeSlab(s, cborEncMode); err == nil {
			w.shadow[id] = hashBytes(b)
		}
	}
}

// CheckDirty (M-dirty): a slab that is loaded but was not stored by any operation since its content was recorded
// must still encode to the recorded bytes. A difference means the library mutated a slab in place without putting
// it into the write set - the change would be lost (or, worse, selectively kept) after a commit and a reload.
func (w *World) CheckDirty() error {
	w.stats.Extra["dirty-checks"]++
	n := 0
	for id, want := range w.shadow {
		s := w.ps.RetrieveIfLoaded(id)
		if s == nil {
			continue
		}
		b, err := atree.EncodeSlab(s, cborEncMode)
		if err != nil {
			if w.TolerateInlineLimit && isInlineLimitRefusal(err) {
				w.stats.Extra["encode-refusals-over-256-inlined-entries"]++
				continue
			}
			return viol("dirty", "loaded slab %s does not encode: %v", id, err)
		}
		n++
		if hashBytes(b) != want {
			return viol("dirty", "slab %s was changed in place after it was last stored (mutation that never entered the write set)", id)
		}
	}
	w.stats.Extra["dirty-slabs-compared"] += n
	return nil
}

func (w *World) checkArrayCount(n *Node, what string) error {
	if n.Arr.Count() != uint64(len(n.Elems)) {
		return viol("count", "%s: array count %d, model %d", what, n.Arr.Count(), len(n.Elems))
	}
	return nil
}

func (w *World) checkMapCount(n *Node, what string) error {
	if n.Map.Count() != uint64(len(n.M)) {
		return viol("count", "%s: map count %d, model %d", what, n.Map.Count(), len(n.M))
	}
	return nil
}

func (w *World) OpArrayInsert(n *Node, idx uint64, vn *Node) error {
	w.logOp("insert %s at %d <- %s", n, idx, vn)
	if err := w.beginOp(n, "array.insert"); err != nil {
		return err
	}
	if w.SkipInvalid && idx > uint64(len(n.Elems)) {
		return nil
	}
	err := n.Arr.Insert(idx, valueOf(vn))
	w.endOp()
	if idx > uint64(len(n.Elems)) {
		if err == nil || !isIndexOOB(err) || !isUserError(err) {
			return viol("ret-err", "Insert at %d of %d: expected index-out-of-bounds user error, got %v", idx, len(n.Elems), err)
		}
		return w.rejected("Array.Insert")
	}
	if err != nil {
		return viol("ret-err", "in-range Insert at %d of %d failed: %v", idx, len(n.Elems), err)
	}
	n.Elems = append(n.Elems, nil)
	copy(n.Elems[idx+1:], n.Elems[idx:])
	n.Elems[idx] = vn
	attach(n, vn)
	return w.checkArrayCount(n, "after Insert")
}

func (w *World) OpArrayAppend(n *Node, vn *Node) error {
	w.logOp("append %s <- %s", n, vn)
	if err := w.beginOp(n, "array.append"); err != nil {
		return err
	}
	err := n.Arr.Append(valueOf(vn))
	w.endOp()
	if err != nil {
		return viol("ret-err", "Append failed: %v", err)
	}
	n.Elems = append(n.Elems, vn)
	attach(n, vn)
	return w.checkArrayCount(n, "after Append")
}

func (w *World) OpArraySet(n *Node, idx uint64, vn *Node) error {
	w.logOp("set %s at %d <- %s", n, idx, vn)
	if err := w.beginOp(n, "array.set"); err != nil {
		return err
	}
	if w.SkipInvalid && idx >= uint64(len(n.Elems)) {
		return nil
	}
	old, err := n.Arr.Set(idx, valueOf(vn))
	w.endOp()
	if idx >= uint64(len(n.Elems)) {
		if err == nil || !isIndexOOB(err) || !isUserError(err) {
			return viol("ret-err", "Set at %d of %d: expected index-out-of-bounds user error, got %v", idx, len(n.Elems), err)
		}
		return w.rejected("Array.Set")
	}
	if err != nil {
		return viol("ret-err", "in-range Set at %d of %d failed: %v", idx, len(n.Elems), err)
	}
	oldNode := n.Elems[idx]
	n.Elems[idx] = vn
	if oldNode != vn {
		attach(n, vn)
		if !w.blindDisposal(old, oldNode) {
			if err := w.checkReturned(old, oldNode, "Array.Set previous element"); err != nil {
				return err
			}
			if err := w.handleDetached(old, oldNode); err != nil {
				return err
			}
		}
	}
	return w.checkArrayCount(n, "after Set")
}

func (w *World) OpArrayRemove(n *Node, idx uint64) error {
	w.logOp("remove %s at %d", n, idx)
	if err := w.beginOp(n, "array.remove"); err != nil {
		return err
	}
	if w.SkipInvalid && idx >= uint64(len(n.Elems)) {
		return nil
	}
	old, err := n.Arr.Remove(idx)
	w.endOp()
	if idx >= uint64(len(n.Elems)) {
		if err == nil || !isIndexOOB(err) || !isUserError(err) {
			return viol("ret-err", "Remove at %d of %d: expected index-out-of-bounds user error, got %v", idx, len(n.Elems), err)
		}
		return w.rejected("Array.Remove")
	}
	if err != nil {
		return viol("ret-err", "in-range Remove at %d of %d failed: %v", idx, len(n.Elems), err)
	}
	oldNode := n.Elems[idx]
	n.Elems = append(n.Elems[:idx], n.Elems[idx+1:]...)
	if !w.blindDisposal(old, oldNode) {
		if err := w.checkReturned(old, oldNode, "Array.Remove element"); err != nil {
			return err
		}
		if err := w.handleDetached(old, oldNode); err != nil {
			return err
		}
	}
	return w.checkArrayCount(n, "after Remove")
}

func (w *World) OpArrayGet(n *Node, idx uint64) error {
	w.logOp("get %s at %d", n, idx)
	if err := w.beginOp(n, "array.get"); err != nil {
		return err
	}
	if w.SkipInvalid && idx >= uint64(len(n.Elems)) {
		return nil
	}
	v, err := n.Arr.Get(idx)
	w.endOp()
	if idx >= uint64(len(n.Elems)) {
		if err == nil || !isIndexOOB(err) || !isUserError(err) {
			return viol("ret-err", "Get at %d of %d: expected index-out-of-bounds user error, got %v", idx, len(n.Elems), err)
		}
		return w.rejected("Array.Get")
	}
	if err != nil {
		return viol("ret-err", "in-range Get at %d of %d failed: %v", idx, len(n.Elems), err)
	}
	if w.st.OpStores+w.st.OpRemoves+w.st.OpGenerates != 0 {
		// not demanded by any property for successful reads: counted, not judged
		w.stats.Extra["successful-reads-that-touched-storage"]++
	}
	e := n.Elems[idx]
	c := &cmpCtx{storage: w.st, cb: w.cb}
	if err := c.shallowEquals(v, e, "Array.Get"); err != nil {
		return viol("ret", "%v", err)
	}
	// Reading a nested container hands out a new handle: it becomes the canonical one.
	if cn := e.container(); cn != nil {
		dropHandles(cn, true)
		return w.setHandleFromValue(cn, v)
	}
	return nil
}

func (w *World) OpArraySetType(n *Node, ti TI) error {
	w.logOp("settype %s <- %s", n, ti)
	if err := w.beginOp(n, "array.settype"); err != nil {
		return err
	}
	err := n.Arr.SetType(ti)
	w.endOp()
	if err != nil {
		return viol("ret-err", "SetType failed: %v", err)
	}
	n.TI = ti
	if got, ok := tiOf(n.Arr.Type()); !ok || got != ti {
		return viol("ret", "Type() = %v after SetType(%v)", n.Arr.Type(), ti)
	}
	return nil
}

func (w *World) OpArrayPop(n *Node) error {
	w.logOp("popiterate %s", n)
	if err := w.beginOp(n, "array.pop"); err != nil {
		return err
	}
	var got []atree.Storable
	err := n.Arr.PopIterate(func(s atree.Storable) { got = append(got, s) })
	w.endOp()
	if err != nil {
		return viol("ret-err", "PopIterate failed: %v", err)
	}
	if len(got) != len(n.Elems) {
		return viol("ret", "PopIterate yielded %d elements, model has %d", len(got), len(n.Elems))
	}
	old := n.Elems
	n.Elems = nil
	for i, s := range got {
		on := old[len(old)-1-i]
		if err := w.checkReturned(s, on, "Array.PopIterate element"); err != nil {
			return err
		}
		if c := on.container(); c != nil {
			c.Parent = nil
			dropHandles(c, true)
		}
		if err := w.dispose(s); err != nil {
			return err
		}
	}
	return w.checkArrayCount(n, "after PopIterate")
}

// ---------------------------------------------------------------------------------------------
// maps

func (w *World) OpMapSet(n *Node, key *Node, vn *Node) error {
	w.logOp("mset %s {%s} <- %s", n, key, vn)
	if err := w.beginOp(n, "map.set"); err != nil {
		return err
	}
	ks := keyString(key)
	e, existed := n.M[ks]
	if existed {
		w.curOp = "map.set-update"
	}
	expectRefusal := false
	if w.ExpectRefusal != nil {
		exhausted := w.ExpectRefusal(n, key)
		if existed {
			if exhausted {
				w.stats.Extra["updates-at-exhausted-budget"]++
			}
		} else {
			expectRefusal = exhausted
		}
	}
	if w.SkipInvalid && expectRefusal {
		return w.discardUnused(vn)
	}
	old, err := n.Map.Set(w.cb.Compare, w.cb.HashInput, scalarValue(key), valueOf(vn))
	w.endOp()
	if expectRefusal {
		var cle *atree.CollisionLimitError
		if err == nil || !errors.As(err, &cle) || !isFatalError(err) {
			return viol("limit-accept", "insert of new key %s exceeds the collision limit but Map.Set returned %v", key, err)
		}
		if w.st.OpStores+w.st.OpRemoves+w.st.OpGenerates != 0 {
			return viol("reject-trace", "refused Map.Set issued %d stores, %d removes, %d id allocations", w.st.OpStores, w.st.OpRemoves, w.st.OpGenerates)
		}
		w.stats.Rejected++
		w.stats.Extra["collision-limit-refusals"]++
		if err := w.checkMapCount(n, "after refused Map.Set"); err != nil {
			return err
		}
		return w.discardUnused(vn)
	}
	if err != nil {
		var cle *atree.CollisionLimitError
		if errors.As(err, &cle) {
			return viol("limit-refuse", "Map.Set(%s) (existing key: %v) refused with a collision-limit error although the budget is not exhausted: %v", key, existed, err)
		}
		return viol("ret-err", "Map.Set failed: %v", err)
	}
	if existed {
		oldNode := e.Val
		e.Val = vn
		if oldNode != vn {
			attach(n, vn)
			if old == nil {
				return viol("ret", "Map.Set on an existing key returned no previous value")
			}
			if !w.blindDisposal(old, oldNode) {
				if err := w.checkReturned(old, oldNode, "Map.Set previous value"); err != nil {
					return err
				}
				if err := w.handleDetached(old, oldNode); err != nil {
					return err
				}
			}
		}
	} else {
		if old != nil {
			return viol("ret", "Map.Set on a new key returned a previous value %v", old)
		}
		n.seq++
		n.gen++
		n.M[ks] = &Entry{Key: key, Val: vn, Seq: n.seq}
		attach(n, vn)
	}
	return w.checkMapCount(n, "after Map.Set")
}

func (w *World) OpMapRemove(n *Node, key *Node) error {
	w.logOp("mremove %s {%s}", n, key)
	if err := w.beginOp(n, "map.remove"); err != nil {
		return err
	}
	kstr := keyString(key)
	e, existed := n.M[kstr]
	if w.SkipInvalid && !existed {
		return nil
	}
	ks, vs, err := n.Map.Remove(w.cb.Compare, w.cb.HashInput, scalarValue(key))
	w.endOp()
	if !existed {
		if err == nil || !isKeyNotFound(err) || !isUserError(err) {
			return viol("ret-err", "Map.Remove of an absent key: expected key-not-found user error, got %v", err)
		}
		if w.st.OpStores+w.st.OpRemoves+w.st.OpGenerates != 0 {
			return viol("reject-trace", "rejected Map.Remove issued %d stores, %d removes, %d id allocations", w.st.OpStores, w.st.OpRemoves, w.st.OpGenerates)
		}
		w.stats.Rejected++
		return nil
	}
	if err != nil {
		return viol("ret-err", "Map.Remove of a present key failed: %v", err)
	}
	delete(n.M, kstr)
	n.gen++
	if err := w.checkReturned(ks, e.Key, "Map.Remove key"); err != nil {
		return err
	}
	blind := w.blindDisposal(vs, e.Val)
	if !blind {
		if err := w.checkReturned(vs, e.Val, "Map.Remove value"); err != nil {
			return err
		}
	}
	if err := w.dispose(ks); err != nil {
		return err
	}
	if !blind {
		if err := w.handleDetached(vs, e.Val); err != nil {
			return err
		}
	}
	return w.checkMapCount(n, "after Map.Remove")
}

func (w *World) OpMapGet(n *Node, key *Node) error {
	w.logOp("mget %s {%s}", n, key)
	if err := w.beginOp(n, "map.get"); err != nil {
		return err
	}
	if _, present := n.M[keyString(key)]; w.SkipInvalid && !present {
		return nil
	}
	v, err := n.Map.Get(w.cb.Compare, w.cb.HashInput, scalarValue(key))
	w.endOp()
	touched := w.st.OpStores+w.st.OpRemoves+w.st.OpGenerates != 0
	e, existed := n.M[keyString(key)]
	if existed && touched {
		w.stats.Extra["successful-reads-that-touched-storage"]++
	}
	if !existed {
		if err == nil || !isKeyNotFound(err) || !isUserError(err) {
			return viol("ret-err", "Map.Get of an absent key %s: expected key-not-found user error, got %v (value %v)", key, err, v)
		}
		if touched {
			return viol("reject-trace", "rejected Map.Get issued %d stores, %d removes, %d id allocations", w.st.OpStores, w.st.OpRemoves, w.st.OpGenerates)
		}
		w.stats.Rejected++
		w.stats.Extra["absent-get"]++
		return nil
	}
	if err != nil {
		return viol("ret-err", "Map.Get of a present key %s failed: %v", key, err)
	}
	c := &cmpCtx{storage: w.st, cb: w.cb}
	if err := c.shallowEquals(v, e.Val, "Map.Get"); err != nil {
		return viol("ret", "%v", err)
	}
	if cn := e.Val.container(); cn != nil {
		dropHandles(cn, true)
		return w.setHandleFromValue(cn, v)
	}
	return nil
}

func (w *World) OpMapHas(n *Node, key *Node) error {
	w.logOp("mhas %s {%s}", n, key)
	if err := w.beginOp(n, "map.has"); err != nil {
		return err
	}
	ok, err := n.Map.Has(w.cb.Compare, w.cb.HashInput, scalarValue(key))
	w.endOp()
	if err != nil {
		return viol("ret-err", "Map.Has failed: %v", err)
	}
	_, existed := n.M[keyString(key)]
	if ok != existed {
		return viol("ret", "Map.Has(%s) = %v, model %v", key, ok, existed)
	}
	if !existed {
		w.stats.Extra["absent-has"]++
	}
	return nil
}

func (w *World) OpMapSetType(n *Node, ti TI) error {
	w.logOp("msettype %s <- %s", n, ti)
	if err := w.beginOp(n, "map.settype"); err != nil {
		return err
	}
	err := n.Map.SetType(ti)
	w.endOp()
	if err != nil {
		return viol("ret-err", "Map.SetType failed: %v", err)
	}
	n.TI = ti
	if got, ok := tiOf(n.Map.Type()); !ok || got != ti {
		return viol("ret", "Type() = %v after SetType(%v)", n.Map.Type(), ti)
	}
	return nil
}

func (w *World) OpMapPop(n *Node) error {
	w.logOp("mpopiterate %s", n)
	if err := w.beginOp(n, "map.pop"); err != nil {
		return err
	}
	type kv struct{ k, v atree.Storable }
	var got []kv
	err := n.Map.PopIterate(func(k, v atree.Storable) { got = append(got, kv{k, v}) })
	w.endOp()
	if err != nil {
		return viol("ret-err", "Map.PopIterate failed: %v", err)
	}
	if len(got) != len(n.M) {
		return viol("ret", "Map.PopIterate yielded %d pairs, model has %d", len(got), len(n.M))
	}
	old := n.M
	n.M = map[string]*Entry{}
	n.gen++
	seen := map[string]bool{}
	for _, p := range got {
		kvv, err := p.k.StoredValue(w.st)
		if err != nil {
			return viol("ret", "Map.PopIterate key does not resolve: %v", err)
		}
		kn, ok := keyNodeFromValue(kvv)
		if !ok {
			return viol("ret", "Map.PopIterate yields unknown key type %T", kvv)
		}
		ks := keyString(kn)
		e, ok := old[ks]
		if !ok || seen[ks] {
			return viol("ret", "Map.PopIterate yields key %s (in model: %v, already seen: %v)", kn, ok, seen[ks])
		}
		seen[ks] = true
		if err := w.checkReturned(p.v, e.Val, "Map.PopIterate value"); err != nil {
			return err
		}
		if c := e.Val.container(); c != nil {
			c.Parent = nil
			dropHandles(c, true)
		}
		if err := w.dispose(p.k); err != nil {
			return err
		}
		if err := w.dispose(p.v); err != nil {
			return err
		}
	}
	return w.checkMapCount(n, "after Map.PopIterate")
}

// ---------------------------------------------------------------------------------------------
// storage-level operations

func (w *World) Commit(relaxed bool, workers int) error {
	w.logOp("commit relaxed=%v workers=%d", relaxed, workers)
	w.stats.Ops["commit"]++
	w.stats.Commits++
	w.led.inCommit = true
	var err error
	if relaxed {
		err = w.ps.NondeterministicFastCommit(workers)
	} else {
		err = w.ps.FastCommit(workers)
	}
	w.led.inCommit = false
	if err != nil {
		if w.TolerateInlineLimit && isInlineLimitRefusal(err) {
			w.stats.Extra["commits-refused-over-256-inlined-entries"]++
			w.Stuck = true
			return errStop
		}
		return viol("commit-err", "commit failed without an injected fault: %v", err)
	}
	return nil
}

// DropCache evicts the read cache. Handles of NESTED containers are dropped with it (and re-acquired through their
// parents on demand): a handle of an inlined child points into the slab object graph of its parent, which is rebuilt by
// decoding after an eviction, so - exactly as after a reopen - such a handle no longer denotes the object the storage
// holds. Handles of roots and of detached containers (standalone slabs, reachable by id) are kept.
func (w *World) DropCache() {
	w.logOp("dropcache")
	w.stats.Ops["dropcache"]++
	w.ps.DropCache()
	for _, n := range w.allLive() {
		dropHandles(n, false)
	}
}

// Reopen replaces the storage by a brand-new one over the same ledger and re-opens every root by id.
// The caller must have committed before.
func (w *World) Reopen() error {
	w.logOp("reopen")
	w.stats.Ops["reopen"]++
	ids := make([]atree.SlabID, len(w.roots))
	for i, r := range w.roots {
		ids[i] = rootID(r)
	}
	dids := make([]atree.SlabID, len(w.detached))
	for i, r := range w.detached {
		dids[i] = rootID(r)
	}
	w.ps = newStorage(w.led)
	universe := w.st.Universe
	w.st = NewStorageProxy(w.ps)
	w.st.Universe = universe
	for i, r := range w.roots {
		if err := w.reopenRoot(r, ids[i], w.st); err != nil {
			return err
		}
	}
	for i, r := range w.detached {
		if err := w.reopenRoot(r, dids[i], w.st); err != nil {
			return err
		}
	}
	return nil
}

// rejected records a correctly categorised rejected request and checks that it left no trace in the storage.
func (w *World) rejected(what string) error {
	w.stats.Rejected++
	if w.st.OpStores+w.st.OpRemoves+w.st.OpGenerates != 0 {
		return viol("reject-trace", "rejected %s issued %d stores, %d removes, %d id allocations", what, w.st.OpStores, w.st.OpRemoves, w.st.OpGenerates)
	}
	return nil
}
