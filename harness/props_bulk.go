package main

import (
	"bytes"
	"errors"
	"fmt"
	"math/rand"
	"sort"
	"strings"

	"github.com/onflow/atree"
	tu "github.com/onflow/atree/test_utils"
)

// ---------------------------------------------------------------------------------------------
// C20: the storage health check accepts exactly the healthy storages

// refGraph computes, independently of the library's health check, the reference graph of a register set.
type refGraph struct {
	parents map[atree.SlabID][]atree.SlabID // child -> referencing slabs
	refs    map[atree.SlabID][]atree.SlabID // slab -> referenced ids (in order)
	kinds   map[atree.SlabID]string         // child id -> kind of reference that reaches it
}

func storableRefs(s atree.Storable, via string, out *[]atree.SlabID, kinds map[atree.SlabID]string) {
	inner, wraps := unwrapSomeStorable(s)
	switch x := inner.(type) {
	case atree.SlabIDStorable:
		*out = append(*out, atree.SlabID(x))
		k := via
		if wraps > 0 {
			k = "wrapper->" + via
		}
		kinds[atree.SlabID(x)] = k
	case atree.Slab:
		if vi := atree.VerifSlabInfo(x); vi != nil {
			slabRefs(vi, out, kinds)
		}
	}
}

func elementsRefs(el *atree.VerifElements, out *[]atree.SlabID, kinds map[atree.SlabID]string) {
	if el == nil {
		return
	}
	for _, e := range el.Elems {
		switch e.Kind {
		case "single":
			storableRefs(e.Key, "key", out, kinds)
			storableRefs(e.Value, "element", out, kinds)
		case "inline-group":
			elementsRefs(e.Group, out, kinds)
		case "external-group":
			*out = append(*out, e.ExternalID)
			kinds[e.ExternalID] = "group->collision-slab"
		}
	}
}

func slabRefs(vi *atree.VerifSlab, out *[]atree.SlabID, kinds map[atree.SlabID]string) {
	switch vi.Kind {
	case "array-meta", "map-meta":
		for _, c := range vi.Children {
			*out = append(*out, c.ID)
			kinds[c.ID] = "index->child"
		}
	case "array-data":
		for _, e := range vi.ArrayElements {
			storableRefs(e, "element", out, kinds)
		}
	case "map-data":
		elementsRefs(vi.MapElements, out, kinds)
	case "storable":
		storableRefs(vi.Storable, "element", out, kinds)
	}
}

func buildRefGraph(regs map[atree.SlabID][]byte) (*refGraph, error) {
	g := &refGraph{parents: map[atree.SlabID][]atree.SlabID{}, refs: map[atree.SlabID][]atree.SlabID{}, kinds: map[atree.SlabID]string{}}
	for _, id := range sortedIDs(regs) {
		s, err := atree.DecodeSlab(id, regs[id], cborDecMode, decodeStorable, decodeTypeInfo)
		if err != nil {
			return nil, err
		}
		vi := atree.VerifSlabInfo(s)
		var out []atree.SlabID
		slabRefs(vi, &out, g.kinds)
		g.refs[id] = out
		for _, c := range out {
			g.parents[c] = append(g.parents[c], id)
		}
	}
	return g, nil
}

// reachableFrom returns the multiset (as sorted list) of resolvable and broken references reachable from id.
func (g *refGraph) reachableFrom(id atree.SlabID, regs map[atree.SlabID][]byte) (resolved, broken []atree.SlabID) {
	queue := append([]atree.SlabID(nil), g.refs[id]...)
	for len(queue) > 0 {
		c := queue[0]
		queue = queue[1:]
		if _, ok := regs[c]; !ok {
			broken = append(broken, c)
			continue
		}
		resolved = append(resolved, c)
		queue = append(queue, g.refs[c]...)
	}
	return
}

func sortIDs(ids []atree.SlabID) []atree.SlabID {
	out := append([]atree.SlabID(nil), ids...)
	sort.Slice(out, func(i, j int) bool { return out[i].Compare(out[j]) < 0 })
	return out
}

func idsEqual(a, b []atree.SlabID) bool {
	a, b = sortIDs(a), sortIDs(b)
	if len(a) != len(b) {
		return false
	}
	for i := range a {
		if a[i] != b[i] {
			return false
		}
	}
	return true
}

// loadAll builds a fresh storage over the registers and loads everything that resolves.
func loadAll(regs map[atree.SlabID][]byte) (*atree.PersistentSlabStorage, error) {
	ps, _, err := loadAllLedger(regs)
	return ps, err
}

func loadAllLedger(regs map[atree.SlabID][]byte) (*atree.PersistentSlabStorage, *Ledger, error) {
	led := NewLedgerFrom(regs, nil)
	ps := newStorage(led)
	ids := sortedIDs(regs)
	// "all slabs loaded" is established in turn by one parallel preload, by two parallel preloads and by retrieving every
	// register one by one
	switch loadAllCalls++; loadAllCalls % 3 {
	case 0:
		for _, id := range ids {
			if _, _, err := ps.Retrieve(id); err != nil {
				return nil, nil, err
			}
		}
		return ps, led, nil
	case 1:
		// in two parallel preloads (what the first one loaded must still be there after the second)
		if len(ids) >= 24 {
			h := len(ids) / 2
			if err := ps.BatchPreload(ids[:h], 4); err != nil {
				return nil, nil, err
			}
			if err := ps.BatchPreload(ids[h:], 4); err != nil {
				return nil, nil, err
			}
			return ps, led, nil
		}
	}
	if err := ps.BatchPreload(ids, 4); err != nil {
		return nil, nil, err
	}
	return ps, led, nil
}

var loadAllCalls int

func freshID(regs map[atree.SlabID][]byte, addr atree.Address, salt uint64) atree.SlabID {
	for i := uint64(1); ; i++ {
		var idx atree.SlabIndex
		putUint64(idx[:], 1_000_000+salt*1000+i)
		id := atree.NewSlabID(addr, idx)
		if _, ok := regs[id]; !ok {
			return id
		}
	}
}

func copyRegs(regs map[atree.SlabID][]byte) map[atree.SlabID][]byte {
	out := make(map[atree.SlabID][]byte, len(regs))
	for k, v := range regs {
		out[k] = v
	}
	return out
}

func rawID(id atree.SlabID) []byte {
	var b [16]byte
	_, _ = id.ToRawBytes(b[:])
	return b[:]
}

type c20Stats struct {
	obs map[string]int
}

// c20CheckStorage runs the healthy-side and the corrupted-side checks on one committed world.
func c20CheckStorage(w *World, res *CaseResult) error {
	obs := res.Obs
	regs := w.led.Snapshot()
	var rootIDs []atree.SlabID
	for _, n := range w.allLive() {
		if n.Addr != atree.AddressUndefined {
			rootIDs = append(rootIDs, rootID(n))
		}
	}
	g, err := buildRefGraph(regs)
	if err != nil {
		return viol("harness", "registers do not decode: %v", err)
	}
	expectHealthy := func(ps atree.SlabStorage, what string) error {
		roots, err := atree.CheckStorageHealth(ps, len(rootIDs))
		if err != nil {
			return viol("health-reject", "%s: CheckStorageHealth rejected a storage produced by a valid history: %v", what, err)
		}
		var got []atree.SlabID
		for id := range roots {
			got = append(got, id)
		}
		if !idsEqual(got, rootIDs) {
			return viol("health-roots", "%s: CheckStorageHealth returned roots %v, live roots are %v", what, sortIDs(got), sortIDs(rootIDs))
		}
		obs["healthy-storages-accepted"]++
		return nil
	}
	// ---- healthy side
	if err := expectHealthy(w.ps, "warm storage after commit"); err != nil {
		return err
	}
	cold, err := loadAll(regs)
	if err != nil {
		return viol("harness", "preload failed: %v", err)
	}
	if err := expectHealthy(cold, "fresh storage with everything preloaded"); err != nil {
		return err
	}
	// the same slabs in the library's in-memory storage (BasicSlabStorage): accepted, true roots; its Encode() gives back
	// the registers; one deleted referenced slab and one added unreferenced slab are rejected
	{
		basic := atree.NewBasicSlabStorage(cborEncMode, cborDecMode, decodeStorable, decodeTypeInfo)
		for _, id := range sortedIDs(regs) {
			sl, err := atree.DecodeSlab(id, regs[id], cborDecMode, decodeStorable, decodeTypeInfo)
			if err != nil {
				return viol("harness", "register %s does not decode: %v", id, err)
			}
			if err := basic.Store(id, sl); err != nil {
				return viol("harness", "%v", err)
			}
		}
		if err := expectHealthy(basic, "in-memory storage (BasicSlabStorage) holding the same slabs"); err != nil {
			return err
		}
		enc, err := basic.Encode()
		if err != nil || regsDigest(enc) != regsDigest(regs) {
			return viol("health-basic", "BasicSlabStorage.Encode() does not give back the registers it was filled from (error %v): %v", err, diffRegs(regs, enc))
		}
		var victim atree.SlabID
		for _, id := range sortedIDs(regs) {
			if len(g.parents[id]) > 0 {
				victim = id
				break
			}
		}
		if victim != atree.SlabIDUndefined {
			saved, _, _ := basic.Retrieve(victim)
			_ = basic.Remove(victim)
			if _, err := atree.CheckStorageHealth(basic, len(rootIDs)); err == nil {
				return viol("health-accept", "CheckStorageHealth accepted an in-memory storage whose referenced slab %s was removed", victim)
			}
			_ = basic.Store(victim, saved)
			stray := freshID(regs, victim.Address(), 77)
			_ = basic.Store(stray, mintSlab(stray, 5))
			if _, err := atree.CheckStorageHealth(basic, len(rootIDs)); err == nil {
				return viol("health-accept", "CheckStorageHealth accepted an in-memory storage with an unreferenced slab beyond the expected root count")
			}
			obs["corruptions-rejected"] += 2
		}
		obs["in-memory-storages-checked"]++
	}
	// all-child-references query on healthy storages
	for _, rid := range rootIDs {
		refs, broken, err := cold.GetAllChildReferences(rid)
		if err != nil {
			return viol("childrefs", "GetAllChildReferences(%s) failed: %v", rid, err)
		}
		wantRefs, wantBroken := g.reachableFrom(rid, regs)
		if !idsEqual(refs, wantRefs) || !idsEqual(broken, wantBroken) {
			return viol("childrefs", "GetAllChildReferences(%s) = (%d refs, %d broken), independent walk finds (%d, %d)", rid, len(refs), len(broken), len(wantRefs), len(wantBroken))
		}
		obs["childrefs-queries"]++
	}

	expectReject := func(ps atree.SlabStorage, nroots int, what string) error {
		if _, err := atree.CheckStorageHealth(ps, nroots); err == nil {
			return viol("health-accept", "CheckStorageHealth accepted a corrupted storage: %s", what)
		}
		obs["corruptions-rejected"]++
		return nil
	}
	isRoot := map[atree.SlabID]bool{}
	for _, r := range rootIDs {
		isRoot[r] = true
	}
	ids := sortedIDs(regs)
	if len(ids) > 70 {
		// sample deterministically but keep every reference kind
		r := rand.New(rand.NewSource(int64(len(ids))))
		keep := map[atree.SlabID]bool{}
		for _, id := range ids {
			if r.Intn(len(ids)) < 70 {
				keep[id] = true
			}
		}
		seenKind := map[string]bool{}
		for _, id := range ids {
			if k := g.kinds[id]; k != "" && !seenKind[k] {
				seenKind[k] = true
				keep[id] = true
			}
		}
		var s []atree.SlabID
		for _, id := range ids {
			if keep[id] {
				s = append(s, id)
			}
		}
		ids = s
	}
	for n, id := range ids {
		kind := g.kinds[id]
		referenced := len(g.parents[id]) > 0
		// ---- (1) delete a referenced slab
		if referenced && !isRoot[id] {
			obs["kind:"+kind]++
			// ledger level + fresh storage that loads everything that resolves
			r1 := copyRegs(regs)
			delete(r1, id)
			ps, err := loadAll(r1)
			if err != nil {
				return viol("harness", "preload failed: %v", err)
			}
			if err := expectReject(ps, len(rootIDs), fmt.Sprintf("referenced slab %s (%s) deleted at ledger level", id, kind)); err != nil {
				return err
			}
			// all-child-references on the broken storage: broken list == the deleted id (when reachable)
			for _, rid := range rootIDs {
				refs, broken, err := ps.GetAllChildReferences(rid)
				if err != nil {
					return viol("childrefs", "GetAllChildReferences(%s) on a storage with a deleted slab failed: %v", rid, err)
				}
				wantRefs, wantBroken := g.reachableFrom(rid, r1)
				if !idsEqual(refs, wantRefs) || !idsEqual(broken, wantBroken) {
					return viol("childrefs", "after deleting %s: GetAllChildReferences(%s) = (%d refs, broken %v), independent walk finds (%d, %v)", id, rid, len(refs), sortIDs(broken), len(wantRefs), sortIDs(wantBroken))
				}
				if len(wantBroken) > 0 {
					obs["childrefs-broken-found"]++
				}
			}
			// through the storage API on a warm storage: uncommitted ...
			ps2, led, err := loadAllLedger(regs)
			if err != nil {
				return viol("harness", "preload failed: %v", err)
			}
			if err := ps2.Remove(id); err != nil {
				return viol("harness", "Remove failed: %v", err)
			}
			if err := expectReject(ps2, len(rootIDs), fmt.Sprintf("referenced slab %s (%s) removed through the storage API (uncommitted)", id, kind)); err != nil {
				return err
			}
			// the all-child-references query must see the pending deletion as a broken reference
			for _, rid := range rootIDs {
				refs, broken, err := ps2.GetAllChildReferences(rid)
				if err != nil {
					return viol("childrefs", "GetAllChildReferences(%s) with a pending deletion failed: %v", rid, err)
				}
				wantRefs, wantBroken := g.reachableFrom(rid, r1)
				if !idsEqual(refs, wantRefs) || !idsEqual(broken, wantBroken) {
					return viol("childrefs", "after removing %s through the storage API (uncommitted): GetAllChildReferences(%s) = (%d refs, broken %v), independent walk finds (%d, %v)", id, rid, len(refs), sortIDs(broken), len(wantRefs), sortIDs(wantBroken))
				}
				if len(wantBroken) > 0 {
					obs["childrefs-broken-found-pending-deletion"]++
				}
			}
			// ... and committed (alternately with the order-relaxed commit on its parallel path: two more slabs are
			// re-stored unchanged so that the write set holds >= 2 modified slabs next to the deletion)
			led.inCommit = true
			if n%2 == 1 {
				restored := 0
				for _, rid := range ids {
					if rid == id || restored >= 2 {
						continue
					}
					if sl, found, _ := ps2.Retrieve(rid); found {
						_ = ps2.Store(rid, sl)
						restored++
					}
				}
				if err := ps2.NondeterministicFastCommit(3); err != nil {
					return viol("harness", "commit failed: %v", err)
				}
				obs["api-deletions-committed-by-the-relaxed-commit"]++
			} else if err := ps2.FastCommit(2); err != nil {
				return viol("harness", "commit failed: %v", err)
			}
			led.inCommit = false
			if err := expectReject(ps2, len(rootIDs), fmt.Sprintf("referenced slab %s (%s) removed through the storage API and committed", id, kind)); err != nil {
				return err
			}
			obs["deletions-tried"]++
		}
		// ---- (2) add an unreferenced slab, expected root count unchanged
		{
			r2 := copyRegs(regs)
			nid := freshID(regs, id.Address(), uint64(n))
			r2[nid] = regs[id]
			if _, err := atree.DecodeSlab(nid, regs[id], cborDecMode, decodeStorable, decodeTypeInfo); err == nil {
				ps, err := loadAll(r2)
				if err != nil {
					return viol("harness", "preload failed: %v", err)
				}
				if err := expectReject(ps, len(rootIDs), fmt.Sprintf("copy of slab %s added under the fresh id %s (ledger level)", id, nid)); err != nil {
					return err
				}
				ps3, _ := loadAll(regs)
				dec, _ := atree.DecodeSlab(nid, regs[id], cborDecMode, decodeStorable, decodeTypeInfo)
				_ = ps3.Store(nid, dec)
				if err := expectReject(ps3, len(rootIDs), fmt.Sprintf("copy of slab %s stored under the fresh id %s through the storage API", id, nid)); err != nil {
					return err
				}
				obs["additions-tried"]++
			}
			if n%8 == 0 {
				ps4, _ := loadAll(regs)
				sid := freshID(regs, id.Address(), uint64(n)+500)
				_ = ps4.Store(sid, mintSlab(sid, 4242))
				if err := expectReject(ps4, len(rootIDs), "fresh unreferenced large-value slab stored through the storage API"); err != nil {
					return err
				}
			}
		}
		// ---- (3) one slab referenced from two places (duplicate a referencing register, root count unchecked)
		if len(g.refs[id]) > 0 {
			r3 := copyRegs(regs)
			nid := freshID(regs, id.Address(), uint64(n)+2000)
			r3[nid] = regs[id]
			ps, err := loadAll(r3)
			if err != nil {
				return viol("harness", "preload failed: %v", err)
			}
			if err := expectReject(ps, -1, fmt.Sprintf("slab %s duplicated under %s so that its %d children are referenced twice", id, nid, len(g.refs[id]))); err != nil {
				return err
			}
			obs["double-references-tried"]++
		}
		// ---- (3b) two references to one child from the SAME parent slab: patch the reference to the second child
		// so that it points at the first one
		if rs := g.refs[id]; len(rs) >= 2 && rs[0] != rs[1] {
			a, b := rs[0], rs[1]
			pdata := regs[id]
			var patched []byte
			if old := rawID(b); bytes.Count(pdata, old) == 1 {
				patched = bytes.Replace(pdata, old, rawID(a), 1)
			} else if g.kinds[b] == "index->child" {
				ia, ib := a.Index(), b.Index()
				if bytes.Count(pdata, ib[:]) == 1 {
					patched = bytes.Replace(pdata, ib[:], ia[:], 1)
				}
			}
			if patched != nil {
				if _, err := atree.DecodeSlab(id, patched, cborDecMode, decodeStorable, decodeTypeInfo); err == nil {
					r3 := copyRegs(regs)
					r3[id] = patched
					// (i) the displaced child stays behind as an extra root: root count unchecked
					ps, err := loadAll(r3)
					if err == nil {
						if err := expectReject(ps, -1, fmt.Sprintf("slab %s patched to reference child %s twice (displaced child %s left behind, root count unchecked)", id, a, b)); err != nil {
							return err
						}
					}
					// (ii) the displaced child and everything only it reaches is removed: expected root count unchanged
					delete(r3, b)
					sub, _ := g.reachableFrom(b, regs)
					for _, x := range sub {
						delete(r3, x)
					}
					ps, err = loadAll(r3)
					if err == nil {
						if err := expectReject(ps, len(rootIDs), fmt.Sprintf("slab %s patched to reference child %s twice (displaced child %s removed)", id, a, b)); err != nil {
							return err
						}
					}
					obs["same-parent-double-references-tried"]++
				}
			}
		}
		// ---- (4) referenced child moved to a different owner address, reference patched
		if referenced && !isRoot[id] && len(g.parents[id]) == 1 {
			pid := g.parents[id][0]
			pdata := regs[pid]
			old := rawID(id)
			foreign := id.Address()
			foreign[0] ^= 0x55
			nid := atree.NewSlabID(foreign, id.Index())
			var patched []byte
			if i := bytes.Index(pdata, old); i >= 0 && bytes.Count(pdata, old) == 1 {
				patched = append([]byte(nil), pdata...)
				copy(patched[i:], rawID(nid))
			} else if kind == "index->child" {
				// index slabs store the address once and the child indexes separately: not patchable byte-wise
				patched = nil
			}
			if patched != nil {
				r4 := copyRegs(regs)
				delete(r4, id)
				r4[nid] = regs[id]
				r4[pid] = patched
				if _, err := atree.DecodeSlab(pid, patched, cborDecMode, decodeStorable, decodeTypeInfo); err == nil {
					ps, err := loadAll(r4)
					if err == nil {
						if err := expectReject(ps, len(rootIDs), fmt.Sprintf("child %s (%s) moved to foreign owner %s with the reference patched", id, kind, nid)); err != nil {
							return err
						}
						obs["foreign-owner-tried"]++
					}
				}
			}
		}
	}
	return nil
}

// c20TempRoots: containers at the temporary address are part of valid histories (they live in the write set only and are
// never committed). On a storage whose owned changes are all committed, with one / two temporary containers (several
// slabs each: a nested child too large to be inlined, a large value) the health check must still accept, return the
// temporary roots among the roots, and reject an added unreferenced temporary slab and a removed referenced one.
func c20TempRoots(w *World, res *CaseResult) error {
	obs := res.Obs
	if w.ps.DeltasWithoutTempAddresses() != 0 {
		return viol("harness", "owned changes pending before the temporary-root scenario")
	}
	var owned []atree.SlabID
	for _, n := range w.allLive() {
		if n.Addr != atree.AddressUndefined {
			owned = append(owned, rootID(n))
		}
	}
	th := atree.VerifThresholds()
	var temps []atree.SlabID
	var tempChild atree.SlabID
	for t := 0; t < 2; t++ {
		var tn *Node
		var err error
		if t == 0 {
			tn, err = w.NewRootArray(atree.AddressUndefined, w.newTI(false))
		} else {
			tn, err = w.NewRootMap(atree.AddressUndefined, w.newTI(false), nil)
		}
		if err != nil {
			return err
		}
		w.AddRoot(tn)
		// a child that grows beyond the inline limit (its own temporary slab) and a large value (another one)
		child, err := w.NewRootArray(atree.AddressUndefined, w.newTI(false))
		if err != nil {
			return err
		}
		for i := 0; i < 6; i++ {
			if err := w.OpArrayAppend(child, &Node{Kind: KStr, S: w.strOfByteSize(int(th.MaxInlineArrayElementSize) / 2)}); err != nil {
				return err
			}
		}
		big := &Node{Kind: KStr, S: w.strOfByteSize(int(th.Target) + 40)}
		if tn.Kind == KArr {
			if err := w.OpArrayAppend(tn, child); err != nil {
				return err
			}
			if err := w.OpArrayAppend(tn, big); err != nil {
				return err
			}
		} else {
			if err := w.OpMapSet(tn, &Node{Kind: KU64, U: 1}, child); err != nil {
				return err
			}
			if err := w.OpMapSet(tn, &Node{Kind: KU64, U: 2}, big); err != nil {
				return err
			}
		}
		if err := w.handle(child); err != nil {
			return err
		}
		if id := child.Arr.SlabID(); id != atree.SlabIDUndefined {
			tempChild = id
		}
		temps = append(temps, rootID(tn))
		want := append(append([]atree.SlabID(nil), owned...), temps...)
		roots, err := atree.CheckStorageHealth(w.ps, len(want))
		if err != nil {
			return viol("health-reject", "CheckStorageHealth rejected a committed storage that also holds %d temporary-address container(s): %v", len(temps), err)
		}
		var got []atree.SlabID
		for id := range roots {
			got = append(got, id)
		}
		if !idsEqual(got, want) {
			return viol("health-roots", "with %d temporary-address container(s): CheckStorageHealth returned roots %v, live roots are %v", len(temps), sortIDs(got), sortIDs(want))
		}
		obs["healthy-storages-with-temporary-roots-accepted"]++
	}
	nroots := len(owned) + len(temps)
	// an unreferenced temporary slab beyond the expected root count
	var ix atree.SlabIndex
	putUint64(ix[:], 1<<40)
	stray := atree.NewSlabID(atree.AddressUndefined, ix)
	if err := w.ps.Store(stray, mintSlab(stray, 7)); err != nil {
		return viol("harness", "%v", err)
	}
	if _, err := atree.CheckStorageHealth(w.ps, nroots); err == nil {
		return viol("health-accept", "CheckStorageHealth accepted a storage with an unreferenced temporary-address slab beyond the expected root count")
	}
	obs["corruptions-rejected"]++
	if err := w.ps.Remove(stray); err != nil {
		return viol("harness", "%v", err)
	}
	if _, err := atree.CheckStorageHealth(w.ps, nroots); err != nil {
		return viol("health-reject", "CheckStorageHealth rejects after the stray temporary slab was removed again: %v", err)
	}
	// a referenced temporary slab removed
	if tempChild != atree.SlabIDUndefined {
		if err := w.ps.Remove(tempChild); err != nil {
			return viol("harness", "%v", err)
		}
		if _, err := atree.CheckStorageHealth(w.ps, nroots); err == nil {
			return viol("health-accept", "CheckStorageHealth accepted a storage whose referenced temporary-address slab %s was removed", tempChild)
		}
		obs["corruptions-rejected"]++
		obs["temporary-slab-corruptions-tried"]++
	}
	return nil
}

func runC20(c *CaseCtx) *CaseResult {
	r := rand.New(rand.NewSource(c.CaseSeed() ^ 0xc20))
	kind := "array"
	if c.Case%2 == 1 {
		kind = "map"
	}
	cc := &ContCase{Kind: kind}
	cc.Slab = wideSlab(c.Case, []uint32{256, 512, 1024}[c.Case/2%3])
	cc.Prof = DefaultValProfile()
	cc.Prof.PContainer = 25
	cc.Prof.MaxDepth = 3
	cc.Prof.PSome = 20
	cc.Prof.MaxChildElems = 14
	cc.Prof.Sizes = "mixed"
	cc.Ops = 200 + r.Intn(200)
	if c.Tier == "thorough" {
		cc.Ops = 400 + r.Intn(800)
	}
	cc.Hist = HistCfg{DescendPct: 30, PopOnChild: true}
	cc.Mon = MonCfg{TreeEvery: 17}
	cc.Phases = scalePhases(cc.Ops, []Phase{PhaseGrow, PhaseChurn}, []int{70, 30})
	// commits inside the history (both flavours): the warm checkpoints then see a storage whose cache went through
	// commits with deletions
	cc.CommitEvery = 40
	cc.Relaxed = c.Case%4 >= 2
	cc.Workers = 1 + c.Case%3
	if kind == "map" {
		cc.Dig = &DigProfile{Alpha: [4]uint64{uint64(4 + r.Intn(12)), 2, 2, 0}, Salt: uint64(r.Int63())}
		cc.Prof.KeySpace = 200
	}
	obs := map[string]int{}
	var res0 *CaseResult
	checkpoints := 0
	cc.PerOp = func(w *World, root *Node) error {
		// mid-history, with a pending write set: the health check must accept the warm storage
		if w.opCount%50 != 25 {
			return nil
		}
		n := 0
		for _, x := range w.allLive() {
			if x.Addr != atree.AddressUndefined {
				n++
			}
		}
		roots, err := atree.CheckStorageHealth(w.ps, n)
		if err != nil {
			return viol("health-reject", "CheckStorageHealth rejected a warm storage with a pending write set (valid history): %v", err)
		}
		if _, ok := roots[rootID(root)]; !ok || len(roots) != n {
			return viol("health-roots", "CheckStorageHealth on a warm storage returned %d roots, want %d incl. %s", len(roots), n, rootID(root))
		}
		// the all-child-references query on the WARM storage (pending changes on top of earlier commits: the root slab
		// object may have been replaced by a split or a demotion since it was last committed) against the live walk
		rid := rootID(root)
		wk := NewWalker(liveGetter(w.ps), w.ps, w.cb)
		if err := wk.WalkRootID(rid, root, root.Dig); err != nil {
			return viol("tree", "%v", err)
		}
		var want []atree.SlabID
		for id := range wk.Visited {
			if id != rid {
				want = append(want, id)
			}
		}
		refs, broken, err := w.ps.GetAllChildReferences(rid)
		if err != nil {
			return viol("childrefs", "GetAllChildReferences(%s) on a warm storage with pending changes failed: %v", rid, err)
		}
		if len(broken) != 0 || !idsEqual(refs, want) {
			return viol("childrefs", "warm storage with pending changes: GetAllChildReferences(%s) = (%d refs, broken %v), the live walk reaches %d slabs below the root", rid, len(refs), sortIDs(broken), len(want))
		}
		obs["childrefs-queries-on-warm-storages-with-pending-changes"]++
		checkpoints++
		return nil
	}
	cc.Final = func(w *World, root *Node, res *CaseResult) {
		res.Obs = obs
		res0 = res
		// a second, small root so that several roots are present
		extra, err := w.NewRootArray(root.Addr, w.newTI(false))
		if err == nil {
			w.AddRoot(extra)
			for i := 0; i < 5 && err == nil; i++ {
				err = w.OpArrayAppend(extra, w.genScalar(30))
			}
		}
		if err == nil {
			err = w.Commit(cc.Relaxed, 2)
		}
		if err == nil {
			err = c20CheckStorage(w, res)
		}
		if err == nil {
			err = c20TempRoots(w, res)
		}
		if err != nil {
			if v, ok := err.(*Violation); ok {
				res.fail(v)
			} else {
				res.fail(viol("harness", "%v", err))
			}
		}
	}
	res, _, _ := runContainerCase(c, cc)
	_ = res0
	if res.Obs == nil {
		res.Obs = obs
	}
	res.Obs["warm-pending-health-checks"] += checkpoints
	res.Evals = 1 + obs["corruptions-rejected"]
	res.NonTrivial = obs["deletions-tried"] > 3 && obs["double-references-tried"] > 0 && obs["foreign-owner-tried"] > 0 && obs["kind:index->child"] > 0
	return res
}

// ---------------------------------------------------------------------------------------------
// C17: bulk build, copy, byte conversion

type c17env struct {
	w   *World
	res *CaseResult
}

func (w *World) verifyAll(reach bool) error {
	if err := w.CheckTree(reach); err != nil {
		return err
	}
	if err := w.CheckDeep(); err != nil {
		return err
	}
	if err := w.CheckRef(); err != nil {
		return err
	}
	for _, n := range w.allLive() {
		wk := NewWalker(liveGetter(w.ps), w.ps, w.cb)
		if err := wk.WalkRootID(rootID(n), n, n.Dig); err != nil {
			return viol("tree", "%v", err)
		}
		var st sizeStats
		for id := range wk.Visited {
			if s := w.ps.RetrieveIfLoaded(id); s != nil {
				if err := CheckSlabBytes(s, &st); err != nil {
					return viol("bytes", "%v", err)
				}
			}
		}
		w.noteSizeStats(&st)
	}
	return nil
}

// diverge mutates container a for a few steps and checks after each that b is untouched, then disposes a.
func (w *World) diverge(a, b *Node, steps int) error {
	for i := 0; i < steps; i++ {
		if err := w.Step(a, PhaseChurn, &HistCfg{DescendPct: 10}); err != nil {
			return err
		}
		if err := w.CheckDeep(); err != nil {
			return err
		}
	}
	if err := w.CheckTree(true); err != nil {
		return err
	}
	// dispose of a: b must survive intact and alone
	id := rootID(a)
	for i, x := range w.roots {
		if x == a {
			w.roots = append(w.roots[:i], w.roots[i+1:]...)
			break
		}
	}
	dropHandles(a, true)
	if err := w.dispose(atree.SlabIDStorable(id)); err != nil {
		return err
	}
	w.stats.Extra["divergence-phases"]++
	return w.verifyAll(true)
}

// growAfterBuild keeps using a batch-built container in the same storage session: several hundred insertions at PRNG
// positions / keys (plus a few overwrites and removals) split data slabs below every index slab the builder produced,
// including full ones that are not the last of their level; the content is compared with the model along the way.
func (w *World) growAfterBuild(n *Node, steps int) error {
	grow := Phase{Name: "grow-after-build", Insert: 86, Set: 5, Remove: 4, Read: 5, Meta: 0, Pop: 0}
	for i := 0; i < steps; i++ {
		if err := w.Step(n, grow, &HistCfg{}); err != nil {
			return err
		}
		if i%97 == 96 {
			if err := w.CheckDeep(); err != nil {
				return err
			}
		}
	}
	if err := w.CheckDeep(); err != nil {
		return err
	}
	w.stats.Extra["batch-built-then-grown"]++
	return w.CheckTree(true)
}

// batchBytes (final step of the C06 / C07 cases): slabs also come into being through the batch constructors. A few short
// element streams whose tail underflows next to a sibling that cannot lend (and ordinary ones) are built into arrays and,
// through a source map, into maps; every slab of the result goes through the byte-level monitor (reported size ==
// encoded length rule, decoded size == live size, round trip, head flags), then the containers are disposed of.
func (w *World) batchBytes(builds int) error {
	th := atree.VerifThresholds()
	r := w.rng
	lim := int(th.MaxInlineArrayElementSize)
	vlim := int(atree.VerifMaxInlineMapValueSize(3))
	check := func(n *Node) error {
		wk := NewWalker(liveGetter(w.ps), w.ps, w.cb)
		if err := wk.WalkRootID(rootID(n), n, n.Dig); err != nil {
			return viol("tree", "batch-built %s: %v", n, err)
		}
		var st sizeStats
		for id := range wk.Visited {
			if s := w.ps.RetrieveIfLoaded(id); s != nil {
				if err := CheckSlabBytes(s, &st); err != nil {
					return viol("bytes", "batch-built %s: %v", n, err)
				}
			}
		}
		w.noteSizeStats(&st)
		w.stats.Extra["bytes-batch-built-containers"]++
		// nothing but the container's own slabs may have been left behind by the builder (M-reach with it as a root)
		w.roots = append(w.roots, n)
		err := w.CheckTree(true)
		w.roots = w.roots[:len(w.roots)-1]
		return err
	}
	drop := func(n *Node) error {
		id := rootID(n)
		dropHandles(n, true)
		return w.dispose(atree.SlabIDStorable(id))
	}
	for b := 0; b < builds; b++ {
		// array stream: k big elements then a tiny tail / mixed
		n := 2 + r.Intn(9)
		var stream []*Node
		for i := 0; i < n; i++ {
			sz := []int{3, 40, lim / 2, lim - 1, lim, lim * 45 / 100}[r.Intn(6)]
			if i == n-1 && r.Intn(2) == 0 {
				sz = 3
			}
			if sz <= 3 {
				stream = append(stream, &Node{Kind: KU8, U: uint64(i)})
			} else {
				stream = append(stream, &Node{Kind: KStr, S: w.strOfByteSize(sz)})
			}
		}
		i := 0
		ti := w.newTI(false)
		arr, err := atree.NewArrayFromBatchData(w.st, w.addr, ti, func() (atree.Value, error) {
			if i == len(stream) {
				return nil, nil
			}
			v := scalarValue(stream[i])
			i++
			return v, nil
		})
		if err != nil {
			return viol("bulk-build", "NewArrayFromBatchData(%d elements) failed: %v", len(stream), err)
		}
		w.nextNID++
		an := &Node{Kind: KArr, TI: ti, Arr: arr, VID: arr.ValueID(), Addr: w.addr, nid: w.nextNID, Elems: stream}
		if err := check(an); err != nil {
			return err
		}
		// one append: the root keeps whatever size bookkeeping it was built with
		extra := &Node{Kind: KU8, U: 9}
		if err := arr.Append(scalarValue(extra)); err != nil {
			return viol("ret-err", "Append to a batch-built array failed: %v", err)
		}
		an.Elems = append(an.Elems, extra)
		if err := check(an); err != nil {
			return err
		}
		if err := drop(an); err != nil {
			return err
		}
		// byte slice -> byte array (single-slab fast path and batch path), bytes of both CBOR widths mixed
		{
			tgt := int(th.Target)
			L := []int{1, 2, 5, 9, 30, 70, tgt / 4, tgt/2 - 8, tgt - 10, tgt / 3}[r.Intn(10)]
			if L > 3000 {
				L = 3000
			}
			data := make([]byte, L)
			for i := range data {
				switch r.Intn(3) {
				case 0:
					data[i] = byte(r.Intn(24))
				case 1:
					data[i] = byte(24 + r.Intn(232))
				default:
					data[i] = byte(r.Intn(256))
				}
			}
			est := uint32([]int{0, 1, 3, 4}[r.Intn(4)])
			ti := w.newTI(false)
			barr, err := atree.ByteSliceToByteArray[tu.Uint8Value](w.st, w.addr, ti, data, est)
			if err != nil {
				return viol("bytes-conv", "ByteSliceToByteArray(length %d, estimate %d) failed: %v", L, est, err)
			}
			w.nextNID++
			bn := &Node{Kind: KArr, TI: ti, Arr: barr, VID: barr.ValueID(), Addr: w.addr, nid: w.nextNID}
			for _, b := range data {
				bn.Elems = append(bn.Elems, &Node{Kind: KU8, U: uint64(b)})
			}
			if err := check(bn); err != nil {
				return err
			}
			w.stats.Extra["bytes-converted-arrays"]++
			if err := drop(bn); err != nil {
				return err
			}
		}
		// map through a source map
		saveTrace := w.traceOn
		w.traceOn = false
		src, err := w.NewRootMap(w.addr, w.newTI(false), nil)
		if err != nil {
			w.traceOn = saveTrace
			return err
		}
		m := 2 + r.Intn(8)
		for i := 0; i < m; i++ {
			sz := []int{3, 40, vlim / 2, vlim - 1, vlim, vlim * 45 / 100}[r.Intn(6)]
			var v *Node
			if sz <= 3 {
				v = &Node{Kind: KU8, U: uint64(i)}
			} else {
				v = &Node{Kind: KStr, S: w.strOfByteSize(sz)}
			}
			if err := w.OpMapSet(src, &Node{Kind: KU8, U: uint64(i)}, v); err != nil {
				w.traceOn = saveTrace
				return err
			}
		}
		w.traceOn = saveTrace
		it, err := src.Map.ReadOnlyIterator()
		if err != nil {
			return viol("bulk-build", "source iterator: %v", err)
		}
		w.nextNID++
		cp := &Node{Kind: KMap, TI: src.TI, Addr: w.addr, M: map[string]*Entry{}, nid: w.nextNID}
		bm, err := atree.NewMapFromBatchData(w.st, w.addr, atree.NewDefaultDigesterBuilder(), src.TI, w.cb.Compare, w.cb.HashInput, src.Map.Seed(),
			func() (atree.Value, atree.Value, error) {
				k, v, err := it.Next()
				if err != nil || k == nil {
					return nil, nil, err
				}
				return k, v, nil
			})
		if err != nil {
			return viol("bulk-build", "NewMapFromBatchData(%d entries) failed: %v", len(src.M), err)
		}
		for ks, e := range src.M {
			cp.M[ks] = &Entry{Key: cloneModel(e.Key), Val: cloneModel(e.Val), Seq: e.Seq}
		}
		cp.seq = src.seq
		cp.Map = bm
		cp.VID = bm.ValueID()
		// the source goes first, so that the reachability check sees the built map alone
		if err := drop(src); err != nil {
			return err
		}
		if err := check(cp); err != nil {
			return err
		}
		if err := drop(cp); err != nil {
			return err
		}
	}
	return nil
}

func c17Stream(w *World, length int, profile int) []*Node {
	th := atree.VerifThresholds()
	out := make([]*Node, length)
	for i := range out {
		switch profile {
		case 0: // uniform tiny
			out[i] = &Node{Kind: KU8, U: uint64(i % 200)}
		case 1: // uniform near the inline limit
			out[i] = &Node{Kind: KStr, S: w.strOfByteSize(int(th.MaxInlineArrayElementSize) - w.rng.Intn(3))}
		case 2: // last k tiny: the tail underflows
			if i >= length-1-w.rng.Intn(3) {
				out[i] = &Node{Kind: KU8, U: 1}
			} else {
				out[i] = &Node{Kind: KStr, S: w.strOfByteSize(int(th.MaxInlineArrayElementSize)/2 + w.rng.Intn(5))}
			}
		case 3: // mixed
			out[i] = w.genScalar(th.MaxInlineArrayElementSize)
		default: // with references: larger-than-limit strings are externalised
			if i%5 == 0 {
				out[i] = &Node{Kind: KStr, S: w.strOfByteSize(int(th.MaxInlineArrayElementSize) + 1 + w.rng.Intn(40))}
			} else {
				out[i] = &Node{Kind: KU64, U: uint64(i) << 20}
			}
		}
	}
	return out
}

func runC17(c *CaseCtx) *CaseResult {
	res := &CaseResult{Stats: newStats(), Obs: map[string]int{}}
	slab := []uint32{256, 1024, 32768, 512}[c.Case%4]
	mode := c.Case / 4 % 4
	res.Config = map[string]any{"slab_size": slab, "mode": []string{"batch-array", "batch-map", "copy", "bytes"}[mode]}
	atree.VerifSetThreshold(slab)
	defer atree.VerifSetThreshold(1024)
	w := NewWorld(c.CaseSeed(), addrOf(9, 0))
	w.prof.PContainer = 0
	w.prof.MaxDepth = 0
	res.Stats = w.stats
	r := w.rng
	fail := func(err error) *CaseResult {
		if v, ok := err.(*Violation); ok {
			res.fail(v)
		} else {
			res.fail(viol("harness", "%v", err))
		}
		res.Trace = w.trace
		res.Hash = traceHash(res.Config, w.trace)
		return res
	}
	th := atree.VerifThresholds()
	maxLen := 300
	if c.Tier == "thorough" {
		maxLen = 3000
	}
	if slab >= 32768 {
		maxLen *= 4
	}
	switch mode {
	case 0: // NewArrayFromBatchData
		builds := 10
		if c.Tier == "thorough" {
			builds = 40
		}
		for b := 0; b < builds; b++ {
			profile := (c.Case/16 + b) % 5
			length := r.Intn(maxLen + 1)
			if b%4 == 0 {
				length = r.Intn(6)
			}
			stream := c17Stream(w, length, profile)
			w.logOp("batch-build array length %d profile %d", length, profile)
			i := 0
			ti := w.newTI(false)
			arr, err := atree.NewArrayFromBatchData(w.st, w.addr, ti, func() (atree.Value, error) {
				if i == len(stream) {
					return nil, nil
				}
				v := scalarValue(stream[i])
				i++
				return v, nil
			})
			if err != nil {
				return fail(viol("bulk-build", "NewArrayFromBatchData(length %d, profile %d) failed: %v", length, profile, err))
			}
			w.nextNID++
			n := &Node{Kind: KArr, TI: ti, Arr: arr, VID: arr.ValueID(), Addr: w.addr, nid: w.nextNID, Elems: stream}
			w.AddRoot(n)
			if err := w.verifyAll(true); err != nil {
				return fail(err)
			}
			res.Obs["batch-arrays-built"]++
			if w.stats.MaxRootSlabs >= 3 {
				res.Obs["batch-arrays-multi-slab"]++
			}
			// keep at most one previous build around as the "other" value, then diverge
			if len(w.roots) == 2 {
				if err := w.diverge(w.roots[0], w.roots[1], 6); err != nil {
					return fail(err)
				}
			}
		}
		// one large build (several index slabs on one level at the small slab sizes) that is then grown by individual
		// insertions in the same storage session
		{
			length := 600 + r.Intn(900)
			if slab >= 32768 {
				length *= 3
			}
			stream := c17Stream(w, length, []int{3, 0, 4}[c.Case/16%3])
			i := 0
			ti := w.newTI(false)
			arr, err := atree.NewArrayFromBatchData(w.st, w.addr, ti, func() (atree.Value, error) {
				if i == len(stream) {
					return nil, nil
				}
				v := scalarValue(stream[i])
				i++
				return v, nil
			})
			if err != nil {
				return fail(viol("bulk-build", "NewArrayFromBatchData(length %d) failed: %v", length, err))
			}
			w.nextNID++
			n := &Node{Kind: KArr, TI: ti, Arr: arr, VID: arr.ValueID(), Addr: w.addr, nid: w.nextNID, Elems: stream}
			w.AddRoot(n)
			w.logOp("batch-build array length %d, then grow", length)
			if err := w.growAfterBuild(n, 2000); err != nil {
				return fail(err)
			}
			if err := w.diverge(n, nil, 0); err != nil {
				return fail(err)
			}
		}
		// mini streams: 2-14 elements whose sizes are drawn from {tiny, 40 bytes, half limit, limit-1, limit}: the tail of
		// such streams regularly leaves an underfull last slab next to a sibling that cannot lend (merge arm of the
		// close-out), also at the index-slab level when prefixed with filler
		minis := 80
		if c.Tier == "thorough" {
			minis = 600
		}
		lim := int(th.MaxInlineArrayElementSize)
		sizes := []int{3, 40, lim / 2, lim - 1, lim, lim / 3}
		for b := 0; b < minis; b++ {
			n := 2 + r.Intn(13)
			var stream []*Node
			if b%5 == 4 {
				// filler so that the tail sits at the end of a multi-level tree
				for i := 0; i < 30+r.Intn(120); i++ {
					stream = append(stream, &Node{Kind: KStr, S: w.strOfByteSize(lim/2 + r.Intn(4))})
				}
			}
			for i := 0; i < n; i++ {
				sz := sizes[r.Intn(len(sizes))]
				if sz <= 3 {
					stream = append(stream, &Node{Kind: KU8, U: uint64(i)})
				} else {
					stream = append(stream, &Node{Kind: KStr, S: w.strOfByteSize(sz)})
				}
			}
			w.logOp("batch-build mini stream of %d elements", len(stream))
			i := 0
			ti := w.newTI(false)
			arr, err := atree.NewArrayFromBatchData(w.st, w.addr, ti, func() (atree.Value, error) {
				if i == len(stream) {
					return nil, nil
				}
				v := scalarValue(stream[i])
				i++
				return v, nil
			})
			if err != nil {
				return fail(viol("bulk-build", "NewArrayFromBatchData(mini stream of %d) failed: %v", len(stream), err))
			}
			w.nextNID++
			n2 := &Node{Kind: KArr, TI: ti, Arr: arr, VID: arr.ValueID(), Addr: w.addr, nid: w.nextNID, Elems: stream}
			w.AddRoot(n2)
			if err := w.CheckTree(true); err != nil {
				return fail(err)
			}
			if err := w.CheckDeep(); err != nil {
				return fail(err)
			}
			res.Obs["batch-mini-streams"]++
			if err := w.diverge(n2, nil, 0); err != nil {
				return fail(err)
			}
		}
	case 1: // NewMapFromBatchData from a source map
		builds := 4
		if c.Tier == "thorough" {
			builds = 12
		}
		for b := 0; b < builds; b++ {
			var dig *DigProfile
			if b%2 == 1 {
				dig = &DigProfile{Alpha: [4]uint64{uint64(5 + r.Intn(30)), 2, 2, 0}, Salt: uint64(r.Int63())}
			}
			src, err := w.NewRootMap(w.addr, w.newTI(false), dig)
			if err != nil {
				return fail(err)
			}
			w.AddRoot(src)
			cnt := r.Intn(maxLen/2 + 1)
			growAfter := b == builds-2 // an even b: default digester, so the entries spread over many data slabs
			if growAfter {
				// one default-digester build is large (several index slabs on one level at the small slab sizes) and is then grown by
				// individual insertions in the same storage session
				cnt = 500 + r.Intn(500)
			}
			w.prof.KeySpace = cnt*2 + 10
			for i := 0; i < cnt; i++ {
				if err := w.OpMapSet(src, w.genKey(src, w.prof.KeySpace), w.genScalar(th.MaxInlineMapElementSize/2)); err != nil {
					return fail(err)
				}
			}
			w.logOp("batch-build map from source with %d entries", len(src.M))
			it, err := src.Map.ReadOnlyIterator()
			if err != nil {
				return fail(viol("bulk-build", "source iterator: %v", err))
			}
			w.nextNID++
			cp := &Node{Kind: KMap, TI: src.TI, Addr: w.addr, M: map[string]*Entry{}, Dig: dig, nid: w.nextNID}
			var order []string
			m, err := atree.NewMapFromBatchData(w.st, w.addr, w.builderFor(cp), src.TI, w.cb.Compare, w.cb.HashInput, src.Map.Seed(),
				func() (atree.Value, atree.Value, error) {
					k, v, err := it.Next()
					if err != nil || k == nil {
						return nil, nil, err
					}
					kn, _ := keyNodeFromValue(k)
					order = append(order, keyString(kn))
					return k, v, nil
				})
			if err != nil {
				return fail(viol("bulk-build", "NewMapFromBatchData(%d entries) failed: %v", len(src.M), err))
			}
			for ks, e := range src.M {
				cp.seq++
				cp.M[ks] = &Entry{Key: cloneModel(e.Key), Val: cloneModel(e.Val), Seq: e.Seq}
			}
			cp.seq = src.seq
			cp.Map = m
			cp.VID = m.ValueID()
			w.AddRoot(cp)
			if m.Seed() != src.Map.Seed() {
				return fail(viol("bulk-build", "built map has seed %d, source %d", m.Seed(), src.Map.Seed()))
			}
			// same iteration order as the source
			i := 0
			var oerr error
			_ = m.IterateReadOnlyKeys(func(k atree.Value) (bool, error) {
				kn, _ := keyNodeFromValue(k)
				if i >= len(order) || keyString(kn) != order[i] {
					oerr = viol("bulk-build", "built map iterates key %v at position %d, source order differs", k, i)
					return false, nil
				}
				i++
				return true, nil
			})
			if oerr != nil {
				return fail(oerr)
			}
			if i != len(order) {
				return fail(viol("bulk-build", "built map iterates %d keys, source %d", i, len(order)))
			}
			if err := w.verifyAll(true); err != nil {
				return fail(err)
			}
			res.Obs["batch-maps-built"]++
			if growAfter {
				w.prof.KeySpace = cnt * 6
				if err := w.growAfterBuild(cp, 2000); err != nil {
					return fail(err)
				}
			}
			// diverge: mutate the copy, the source must not change; then dispose the copy; then dispose the source
			if err := w.diverge(cp, src, 8); err != nil {
				return fail(err)
			}
			if err := w.diverge(src, nil, 0); err != nil {
				return fail(err)
			}
		}
		// mini sources: few entries with values of extreme sizes, so that the close-out of the batch build meets an underfull
		// last data slab whose sibling cannot lend (merge arm), also behind filler entries (multi-level trees)
		{
			minis := 60
			if c.Tier == "thorough" {
				minis = 400
			}
			vlim := int(atree.VerifMaxInlineMapValueSize(3))
			sizes := []int{3, 40, vlim / 2, vlim - 1, vlim, vlim / 3}
			for b := 0; b < minis; b++ {
				src, err := w.NewRootMap(w.addr, w.newTI(false), nil)
				if err != nil {
					return fail(err)
				}
				w.AddRoot(src)
				n := 2 + r.Intn(13)
				if b%5 == 4 {
					n += 30 + r.Intn(100)
				}
				for i := 0; i < n; i++ {
					sz := sizes[r.Intn(len(sizes))]
					if i < n-14 {
						sz = vlim/2 + r.Intn(4)
					}
					var v *Node
					if sz <= 3 {
						v = &Node{Kind: KU8, U: uint64(i)}
					} else {
						v = &Node{Kind: KStr, S: w.strOfByteSize(sz)}
					}
					if err := w.OpMapSet(src, &Node{Kind: KU64, U: uint64(r.Intn(1 << 20))}, v); err != nil {
						return fail(err)
					}
				}
				it, err := src.Map.ReadOnlyIterator()
				if err != nil {
					return fail(viol("bulk-build", "source iterator: %v", err))
				}
				w.nextNID++
				cp := &Node{Kind: KMap, TI: src.TI, Addr: w.addr, M: map[string]*Entry{}, nid: w.nextNID}
				m, err := atree.NewMapFromBatchData(w.st, w.addr, w.builderFor(cp), src.TI, w.cb.Compare, w.cb.HashInput, src.Map.Seed(),
					func() (atree.Value, atree.Value, error) {
						k, v, err := it.Next()
						if err != nil || k == nil {
							return nil, nil, err
						}
						return k, v, nil
					})
				if err != nil {
					return fail(viol("bulk-build", "NewMapFromBatchData(mini source of %d) failed: %v", len(src.M), err))
				}
				for ks, e := range src.M {
					cp.M[ks] = &Entry{Key: cloneModel(e.Key), Val: cloneModel(e.Val), Seq: e.Seq}
				}
				cp.seq = src.seq
				cp.Map, cp.VID = m, m.ValueID()
				w.AddRoot(cp)
				if err := w.CheckTree(true); err != nil {
					return fail(err)
				}
				if err := w.CheckDeep(); err != nil {
					return fail(err)
				}
				res.Obs["batch-mini-sources"]++
				if err := w.diverge(cp, src, 0); err != nil {
					return fail(err)
				}
				if err := w.diverge(src, nil, 0); err != nil {
					return fail(err)
				}
			}
		}
	case 2: // CopyNonRefSimple matrix
		// "group-nested" / "group-wrapped": the members of an INLINE collision group hold an inlined container / a wrapper
		kinds := []string{"plain", "wrapped", "large", "nested-inlined", "nested-standalone", "group", "multi-slab", "group-nested", "group-wrapped"}
		rounds := 2
		if c.Tier == "thorough" {
			rounds = 8
		}
		for round := 0; round < rounds; round++ {
			for _, srcKind := range []string{"array", "map"} {
				for _, ek := range kinds {
					for _, inlinedSource := range []bool{false, true} {
						if err := c17CopyCase(w, res, srcKind, ek, inlinedSource); err != nil {
							return fail(err)
						}
					}
				}
			}
		}
	case 3: // byte conversion
		lengths := []int{0, 1, 2, 3}
		for i := 0; i < 10; i++ {
			lengths = append(lengths, r.Intn(maxLen*2))
		}
		// lengths around the single-slab fast-path boundary for each estimated size
		for _, est := range []int{4, 3, 1, 100} {
			b := int(th.Target) / est
			lengths = append(lengths, b-2, b-1, b, b+1, int(th.Target)/4-1, int(th.Target)/4, int(th.Target)/4+1, int(th.Target)/3, int(th.Target)/3+1)
		}
		// lengths whose ACTUAL encoded size lands exactly on / next to the target and maximum slab sizes, for uniformly
		// small (3-byte) and uniformly large (4-byte) byte storables: the fast path must never build an oversized slab
		type sized struct {
			L     int
			class int // 0 mixed, 1 all small (<=23), 2 all large (>23)
		}
		var plan []sized
		for _, L := range lengths {
			plan = append(plan, sized{L, 0})
		}
		for _, edge := range []int{int(th.Target), int(th.Max)} {
			for d := -2; d <= 3; d++ {
				plan = append(plan, sized{(edge + d - szArrayRootDataPrefix) / 3, 1}, sized{(edge + d - szArrayRootDataPrefix) / 4, 2})
			}
		}
		for _, pl := range plan {
			L := pl.L
			if L < 0 {
				continue
			}
			ests := []uint32{0, 1, 3, 4, 100}
			if pl.class != 0 {
				ests = []uint32{0, 1, 4}
			}
			for _, est := range ests {
				data := make([]byte, L)
				small := r.Intn(3) == 0
				for i := range data {
					switch {
					case pl.class == 1:
						data[i] = byte(r.Intn(24))
					case pl.class == 2:
						data[i] = byte(24 + r.Intn(232))
					case small:
						data[i] = byte(r.Intn(24))
					default:
						data[i] = byte(r.Intn(256))
					}
				}
				w.logOp("bytes->array length %d estimate %d small=%v", L, est, small)
				ti := w.newTI(false)
				arr, err := atree.ByteSliceToByteArray[tu.Uint8Value](w.st, w.addr, ti, data, est)
				if err != nil {
					return fail(viol("bytes-conv", "ByteSliceToByteArray(length %d, estimate %d) failed: %v", L, est, err))
				}
				w.nextNID++
				n := &Node{Kind: KArr, TI: ti, Arr: arr, VID: arr.ValueID(), Addr: w.addr, nid: w.nextNID}
				for _, b := range data {
					n.Elems = append(n.Elems, &Node{Kind: KU8, U: uint64(b)})
				}
				w.AddRoot(n)
				if err := w.verifyAll(true); err != nil {
					return fail(err)
				}
				back, err := atree.ByteArrayToByteSlice[tu.Uint8Value](arr)
				if err != nil || !bytes.Equal(back, data) {
					return fail(viol("bytes-conv", "round trip of %d bytes (estimate %d): err=%v equal=%v", L, est, err, bytes.Equal(back, data)))
				}
				res.Obs["byte-conversions"]++
				if !arr.IsWithinSingleSlab() {
					res.Obs["byte-conversions-multi-slab"]++
				}
				// a foreign element must be reported as an unexpected element type
				if L > 0 && est == 0 {
					if err := w.OpArrayInsert(n, uint64(r.Intn(L+1)), &Node{Kind: KU64, U: 7}); err != nil {
						return fail(err)
					}
					_, err := atree.ByteArrayToByteSlice[tu.Uint8Value](arr)
					// the typed error for a foreign element is documented API behaviour, not part of the property: counted only
					var ue *atree.UnexpectedElementTypeError
					if err != nil && errors.As(err, &ue) {
						res.Obs["foreign-element-rejections"]++
					}
				}
				if err := w.diverge(n, nil, 0); err != nil {
					return fail(err)
				}
			}
		}
	}
	res.Trace = w.trace
	res.Hash = traceHash(res.Config, w.trace)
	res.NonTrivial = w.stats.Extra["divergence-phases"] > 0 && (mode == 2 || w.stats.MaxRootSlabs >= 3)
	return res
}

// c17CopyCase builds one source of the copy matrix, checks the copy predicate against the model and the copy itself.
func c17CopyCase(w *World, res *CaseResult, srcKind, elemKind string, inlinedSource bool) error {
	th := atree.VerifThresholds()
	r := w.rng
	savedProf := w.prof
	defer func() { w.prof = savedProf }()
	var src *Node
	var err error
	var dig *DigProfile
	grouped := strings.HasPrefix(elemKind, "group")
	if grouped && (inlinedSource || srcKind == "array") {
		// nested maps are always re-created with the default digester by the library, so a custom
		// (colliding) digester is only meaningful for root maps; arrays have no collision groups
		switch elemKind {
		case "group-nested":
			elemKind = "nested-inlined"
		case "group-wrapped":
			elemKind = "wrapped"
		default:
			elemKind = "plain"
		}
		grouped = false
	}
	if srcKind == "array" {
		src, err = w.NewRootArray(w.addr, w.newTI(false))
	} else {
		if grouped {
			dig = &DigProfile{Alpha: [4]uint64{1, 0, 0, 0}, Salt: uint64(r.Int63())}
			switch elemKind {
			case "group-nested":
				elemKind = "nested-inlined"
			case "group-wrapped":
				elemKind = "wrapped"
			}
		}
		src, err = w.NewRootMap(w.addr, w.newTI(false), dig)
	}
	if err != nil {
		return err
	}
	// the holder keeps the source alive as a root, or as an (inlined) element
	n := 3 + r.Intn(4)
	if elemKind == "multi-slab" {
		n = 200
	}
	put := func(i int, v *Node) error {
		if srcKind == "array" {
			return w.OpArrayAppend(src, v)
		}
		return w.OpMapSet(src, &Node{Kind: KU64, U: uint64(i)}, v)
	}
	expectCopyable := true
	for i := 0; i < n; i++ {
		var v *Node
		switch elemKind {
		case "plain", "group", "multi-slab":
			v = &Node{Kind: KU64, U: uint64(r.Intn(1000))}
			if elemKind == "multi-slab" {
				v = &Node{Kind: KStr, S: w.strOfByteSize(int(th.MaxInlineArrayElementSize) / 3)}
			}
		case "wrapped":
			v = &Node{Kind: KSome, Inner: &Node{Kind: KStr, S: w.strOfByteSize(5 + r.Intn(10))}}
		case "large":
			v = &Node{Kind: KU64, U: 1}
			if i == n/2 {
				v = &Node{Kind: KStr, S: w.strOfByteSize(int(th.Target) + 50)}
				if r.Intn(2) == 0 {
					v = &Node{Kind: KSome, Inner: v}
				}
				expectCopyable = false
			}
		case "nested-inlined", "nested-standalone":
			v = &Node{Kind: KU64, U: 2}
			if i == n/2 {
				w.prof.MaxChildElems = 2
				if elemKind == "nested-standalone" {
					w.prof.MaxChildElems = 0
				}
				c, err := w.genContainer(0, w.addr)
				if err != nil {
					return err
				}
				if elemKind == "nested-standalone" {
					// grow the child beyond the inline limit
					for k := 0; k < 60; k++ {
						var e error
						if c.Kind == KArr {
							e = w.OpArrayAppend(c, &Node{Kind: KStr, S: w.strOfByteSize(int(th.MaxInlineArrayElementSize) / 4)})
						} else {
							e = w.OpMapSet(c, &Node{Kind: KU64, U: uint64(k)}, &Node{Kind: KStr, S: w.strOfByteSize(int(th.MaxInlineMapElementSize) / 4)})
						}
						if e != nil {
							return e
						}
					}
				}
				v = c
				if r.Intn(2) == 0 {
					v = &Node{Kind: KSome, Inner: c}
				}
				expectCopyable = false
			}
		}
		if err := put(i, v); err != nil {
			return err
		}
	}
	if elemKind == "multi-slab" {
		expectCopyable = false
	}
	if grouped && srcKind == "map" {
		res.Obs["copy-sources-with-collision-groups"]++
		// first-level collisions: inline group stays copyable, an external group is a reference
		wk := NewWalker(liveGetter(w.ps), w.ps, w.cb)
		if err := wk.WalkRootSlab(rootSlabOf(src), src, src.Dig); err != nil {
			return viol("tree", "%v", err)
		}
		if wk.Stats.ExternalGroups > 0 {
			expectCopyable = false
		}
	}
	var holder *Node
	if inlinedSource {
		holder, err = w.NewRootArray(w.addr, w.newTI(false))
		if err != nil {
			return err
		}
		w.AddRoot(holder)
		if err := w.OpArrayAppend(holder, src); err != nil {
			return err
		}
	} else {
		w.AddRoot(src)
	}
	if err := w.handle(src); err != nil {
		return err
	}
	w.logOp("copy %s of %s elements, source inlined=%v", srcKind, elemKind, inlinedSource)
	var can bool
	single := false
	if src.Kind == KArr {
		can = src.Arr.CanCopyNonRefSimple()
		single = src.Arr.IsWithinSingleSlab()
	} else {
		can = src.Map.CanCopyNonRefSimple()
		single = src.Map.IsWithinSingleSlab()
	}
	want := expectCopyable && single
	if can != want {
		return viol("copy-predicate", "CanCopyNonRefSimple() = %v for a %s with %s elements (single slab %v, source inlined %v), expected %v", can, srcKind, elemKind, single, inlinedSource, want)
	}
	res.Obs["copy-predicates-checked"]++
	if !can {
		// the copy must be refused with a copy error, and nothing may leak
		var err error
		if src.Kind == KArr {
			_, err = src.Arr.CopyNonRefSimple(w.addr)
		} else {
			_, err = src.Map.CopyNonRefSimple(w.addr, w.builderFor(src))
		}
		// what a copy that is NOT offered does is outside the property; only "no leak" is judged below
		var ce *atree.CopyError
		if err != nil && errors.As(err, &ce) {
			res.Obs["copies-refused"]++
		} else {
			res.Obs["not-offered-copies-without-copy-error"]++
		}
		// a refused copy may have allocated an id but must not leave a slab behind
		if err := w.CheckTree(true); err != nil {
			return err
		}
	} else {
		w.nextNID++
		cp := cloneModel(src)
		cp.nid = w.nextNID
		cp.Parent = nil
		if src.Kind == KArr {
			a, err := src.Arr.CopyNonRefSimple(w.addr)
			if err != nil {
				return viol("copy", "copy offered but failed: %v", err)
			}
			cp.Arr, cp.VID = a, a.ValueID()
		} else {
			m, err := src.Map.CopyNonRefSimple(w.addr, w.builderFor(src))
			if err != nil {
				return viol("copy", "copy offered but failed: %v", err)
			}
			cp.Map, cp.VID = m, m.ValueID()
		}
		w.AddRoot(cp)
		if err := w.verifyAll(true); err != nil {
			return err
		}
		res.Obs["copies-made"]++
		if inlinedSource {
			res.Obs["copies-of-inlined-sources"]++
		}
		// the type of one must not follow the type of the other (both directions), in memory and after a commit + reload
		for _, pair := range [][2]*Node{{cp, src}, {src, cp}} {
			a := pair[0]
			nt := TI{ID: 40 + uint64(r.Intn(50))}
			var err error
			if a.Kind == KArr {
				err = w.OpArraySetType(a, nt)
			} else {
				err = w.OpMapSetType(a, nt)
			}
			if err != nil {
				return err
			}
			if err := w.CheckDeep(); err != nil {
				return err
			}
		}
		if err := w.CommitAndCheck(false, 2); err != nil {
			return err
		}
		if err := w.CheckCold(w.led.Snapshot(), w.roots, func() []atree.SlabID {
			ids := make([]atree.SlabID, len(w.roots))
			for i, n := range w.roots {
				ids[i] = rootID(n)
			}
			return ids
		}(), w.roots, true); err != nil {
			return err
		}
		res.Obs["copy-type-independence-checks"]++
		// diverge: mutate the copy; source (possibly inlined in holder) must be unchanged
		if err := w.diverge(cp, src, 5); err != nil {
			return err
		}
	}
	// clean up the source
	if holder != nil {
		return w.diverge(holder, nil, 0)
	}
	return w.diverge(src, nil, 0)
}

func init() {
	cases := func(q, t int) func(string) int {
		return func(tier string) int {
			if tier == "thorough" {
				return t
			}
			return q
		}
	}
	register(&Prop{
		ID: "C20", Level: "fault_enumeration", Run: runC20, Cases: cases(128, 800), MinNonTrivial: 8,
		Rule: "each case = one storage produced by a valid seeded history (nested inlined/standalone children, wrappers around references, large values, external collision groups, multi-level trees, two roots). Healthy side: CheckStorageHealth must accept the warm storage mid-history with a pending write set, after commit, and a fresh storage with everything preloaded, and return exactly the live roots; GetAllChildReferences(root) is compared as a multiset with an independent walk over decoded registers. " +
			"Corrupted side, for EVERY slab (sampled to 70 when larger, keeping every reference kind): (1) delete a referenced slab - at ledger level + fresh storage, through the storage API uncommitted, and committed; (2) add an unreferenced copy / a fresh large-value slab with the expected root count unchanged - ledger level and API; (3) duplicate a referencing register so its children have two parents (root count unchecked), and patch a parent so that two of its own references point at the same child (displaced child left behind / removed); (4) move a referenced child to a foreign owner address and patch the 16-byte reference. Every corruption must be rejected; broken-reference lists must equal the deleted ids that are reachable. " +
			"non-trivial = >3 deletions, a double reference and a foreign-owner corruption were applied and an index->child reference was among the kinds; distinct by hash(config, operation list)",
		Assumptions: []string{"corruptions are single-slab; index->child references are not byte-patchable for kind (4) (the address is stored once per index slab) and are covered by kinds (1)-(3)"},
		Mandatory:   []string{"healthy-storages-accepted", "corruptions-rejected", "deletions-tried", "additions-tried", "double-references-tried", "same-parent-double-references-tried", "foreign-owner-tried", "childrefs-queries", "childrefs-broken-found", "childrefs-broken-found-pending-deletion", "warm-pending-health-checks", "healthy-storages-with-temporary-roots-accepted", "temporary-slab-corruptions-tried", "kind:index->child", "kind:element", "kind:group->collision-slab", "kind:wrapper->element"},
	})
	register(&Prop{
		ID: "C17", Level: "exploration", Run: runC17, Cases: cases(64, 320), MinNonTrivial: 8,
		Rule: "cases cycle over slab sizes {256,512,1024,32768} x 4 modes. batch-array: NewArrayFromBatchData for PRNG lengths (0..300 quick / 0..3000 thorough, x4 at slab 32768) x 5 size profiles (uniform tiny, uniform near the inline limit, underfull tail, mixed, with externalised large values); batch-map: NewMapFromBatchData from generated source maps (default and colliding digesters): same seed, same iteration order; " +
			"copy: matrix {array,map} x {plain, wrapped, large value, nested inlined, nested standalone, collision group, multi-slab} x {standalone, inlined source}: CanCopyNonRefSimple must equal (single slab AND all elements plain non-reference) computed from the model, an offered copy must succeed, a refused copy must return a copy error; bytes: ByteSliceToByteArray/ByteArrayToByteSlice round trips for lengths around the single-slab fast-path boundary x estimates {0,1,3,4,100}, foreign element => typed error. " +
			"In both batch modes one large build (600-1500 elements / 500-1000 entries under the default digester: several index slabs on one level at the small slab sizes) is then GROWN in the same storage session by 2000 further operations (86 % insertions), so that data slabs split below every index slab the builder produced. " +
			"Every result is compared with the model (API deep compare + structural walk + in-repo verifier + byte-level sizes + reachability with both values as roots), then a divergence phase mutates one side with the other re-checked after each step, then one side is disposed of and the other must survive alone. non-trivial = divergence phase ran and (copy mode or a result spanning >=3 slabs); distinct by hash(config, operation list)",
		Assumptions: []string{"batch-built maps are fed from a read-only iteration of the source (scalar/string keys and values)", "exploration, not proof"},
		Mandatory:   []string{"batch-arrays-built", "batch-arrays-multi-slab", "batch-mini-streams", "batch-maps-built", "batch-built-then-grown", "batch-mini-sources", "copies-made", "copies-of-inlined-sources", "byte-conversions", "byte-conversions-multi-slab", "divergence-phases"},
	})
}
