package main

import (
	"encoding/binary"
	"errors"
	"fmt"
	"hash/fnv"
	"sync/atomic"

	"github.com/fxamacker/cbor/v2"
	"github.com/onflow/atree"
	tu "github.com/onflow/atree/test_utils"
)

var cborEncMode = func() cbor.EncMode {
	m, err := cbor.EncOptions{}.EncMode()
	if err != nil {
		panic(err)
	}
	return m
}()

// cborDecMode is the decoding mode of every storage the harness creates. The nesting limit is the caller's choice
// (the library's default of 32 CBOR levels is used up by a handful of inlined containers inside one another, each of
// which costs several CBOR levels, plus wrappers); like the production client, the harness allows deep nesting, so
// that "a slab the library encoded does not decode" can only be the library's doing.
var cborDecMode = func() cbor.DecMode {
	m, err := cbor.DecOptions{MaxNestedLevels: 65535}.DecMode()
	if err != nil {
		panic(err)
	}
	return m
}()

// cborDecModeDefault (32 nesting levels) is what the hostile-input check C19 decodes with.
var cborDecModeDefault = func() cbor.DecMode {
	m, err := cbor.DecOptions{}.DecMode()
	if err != nil {
		panic(err)
	}
	return m
}()

// TI is the harness' own type info. Simple: CBOR uint. Composite: CBOR tag 200 + uint.
// (test_utils.CompositeTypeInfo uses tag 246, which atree reserves; see DESIGN.md.)
type TI struct {
	ID        uint64
	Composite bool
	// Long > 0: the type info encodes to a byte string of that many bytes behind tag 201 (type identifiers of real clients
	// are long strings; the library caches their encoding in pooled buffers sized for 256 bytes)
	Long uint16
}

const tiLongTag = 201

const tiCompositeTag = 200

var _ atree.TypeInfo = TI{}

// tiFailID: a type info with this id fails to encode while the value is non-zero (fault injection into the caller-supplied
// TypeInfo.Encode; C16 error paths). 0 = never.
var tiFailID atomic.Uint64

// ErrTypeInfo is the injected TypeInfo.Encode failure.
var ErrTypeInfo = errors.New("verif: injected type-info encoding fault")

func (t TI) Encode(enc *cbor.StreamEncoder) error {
	if f := tiFailID.Load(); f != 0 && t.ID == f {
		return ErrTypeInfo
	}
	if t.Long > 0 {
		b := make([]byte, t.Long)
		for i := range b {
			b[i] = 'x'
		}
		if t.Composite {
			b[0] = 1
		} else {
			b[0] = 0
		}
		putUint64(b[1:9], t.ID)
		if err := enc.EncodeTagHead(tiLongTag); err != nil {
			return err
		}
		return enc.EncodeBytes(b)
	}
	if t.Composite {
		if err := enc.EncodeTagHead(tiCompositeTag); err != nil {
			return err
		}
	}
	return enc.EncodeUint64(t.ID)
}
func (t TI) IsComposite() bool    { return t.Composite }
func (t TI) Copy() atree.TypeInfo { return t }
func (t TI) String() string {
	l := ""
	if t.Long > 0 {
		l = fmt.Sprintf("/%d", t.Long)
	}
	if t.Composite {
		return fmt.Sprintf("C%d%s", t.ID, l)
	}
	return fmt.Sprintf("T%d%s", t.ID, l)
}

func decodeTypeInfo(dec *cbor.StreamDecoder) (atree.TypeInfo, error) {
	t, err := dec.NextType()
	if err != nil {
		return nil, err
	}
	switch t {
	case cbor.UintType:
		v, err := dec.DecodeUint64()
		if err != nil {
			return nil, err
		}
		return TI{ID: v}, nil
	case cbor.TagType:
		n, err := dec.DecodeTagNumber()
		if err != nil {
			return nil, err
		}
		if n == tiLongTag {
			b, err := dec.DecodeBytes()
			if err != nil {
				return nil, err
			}
			if len(b) < 9 || len(b) > 65535 {
				return nil, fmt.Errorf("verif: long type info of %d bytes", len(b))
			}
			return TI{ID: getUint64(b[1:9]), Composite: b[0] == 1, Long: uint16(len(b))}, nil
		}
		if n != tiCompositeTag {
			return nil, fmt.Errorf("verif: unknown type info tag %d", n)
		}
		v, err := dec.DecodeUint64()
		if err != nil {
			return nil, err
		}
		return TI{ID: v, Composite: true}, nil
	}
	return nil, fmt.Errorf("verif: unexpected cbor type %s for type info", t)
}

func compareTypeInfo(a, b atree.TypeInfo) bool {
	x, ok1 := a.(TI)
	y, ok2 := b.(TI)
	return ok1 && ok2 && x == y
}

func tiOf(t atree.TypeInfo) (TI, bool) {
	x, ok := t.(TI)
	return x, ok
}

// decodeStorable is the storable decoder given to every storage the harness creates.
var decodeStorable atree.StorableDecoder = tu.DecodeStorable

func newStorage(l *Ledger) *atree.PersistentSlabStorage {
	if l.viaAPI {
		return atree.NewPersistentSlabStorage(atree.NewLedgerBaseStorage(&ledgerAPI{l}), cborEncMode, cborDecMode, decodeStorable, decodeTypeInfo)
	}
	return atree.NewPersistentSlabStorage(l, cborEncMode, cborDecMode, decodeStorable, decodeTypeInfo)
}

// ---------------------------------------------------------------------------------------------
// Caller-supplied callbacks with fault / yield injection.

var ErrCallback = errors.New("verif: injected callback fault")

type Callbacks struct {
	CmpCalls   int
	HipCalls   int
	FailCmpAt  int // 1-based; 0 = never
	FailHipAt  int
	CmpFailed  bool
	HipFailed  bool
	YieldEvery int

	// HipClasses > 0: the hash-input provider maps every key onto one of that many hash inputs (a caller whose hash
	// input covers only part of the key). Under the library's DEFAULT digester all keys of a class then collide on
	// every digest level; only the comparator tells them apart. Survives Reset.
	HipClasses uint64
}

func (c *Callbacks) Reset() { *c = Callbacks{HipClasses: c.HipClasses} }

func (c *Callbacks) Compare(storage atree.SlabStorage, v atree.Value, s atree.Storable) (bool, error) {
	c.CmpCalls++
	if c.FailCmpAt != 0 && c.CmpCalls == c.FailCmpAt {
		c.CmpFailed = true
		return false, ErrCallback
	}
	return tu.CompareValue(storage, v, s)
}

func (c *Callbacks) HashInput(v atree.Value, buf []byte) ([]byte, error) {
	c.HipCalls++
	if c.FailHipAt != 0 && c.HipCalls == c.FailHipAt {
		c.HipFailed = true
		return nil, ErrCallback
	}
	msg, err := tu.GetHashInput(v, buf)
	if err != nil || c.HipClasses == 0 {
		return msg, err
	}
	h := hashBytes(msg) % c.HipClasses
	out := make([]byte, 9)
	out[0] = 0xC1
	putUint64(out[1:], h)
	return out, nil
}

// ---------------------------------------------------------------------------------------------
// Adversarial digester.  Level l digest is drawn from an alphabet of Alpha[l] values
// (0 means the full 64-bit range).  Deterministic in (hash input, salt); independent of the seed.

type DigProfile struct {
	Alpha [4]uint64
	Salt  uint64
	// OrderRevealing: level-0 digest is a monotone function of an integer key (Uint64Value keys only)
	OrderRevealing bool
	// Paired: Uint64Value keys 2i and 2i+1 share their level-0 digest and differ on every other level, so that every
	// collision group has exactly two members (collapse of a group on removal of either)
	Paired bool
	Levels uint // number of digest levels (default 4)
}

func (p DigProfile) String() string {
	return fmt.Sprintf("alpha=%v salt=%d ord=%v paired=%v", p.Alpha, p.Salt, p.OrderRevealing, p.Paired)
}

type advBuilder struct {
	prof DigProfile
	k0   uint64
}

type advDigester struct {
	d      [4]atree.Digest
	levels uint
}

func newAdvBuilder(p DigProfile) *advBuilder {
	if p.Levels == 0 {
		p.Levels = 4
	}
	return &advBuilder{prof: p}
}

func (b *advBuilder) SetSeed(k0, _ uint64) { b.k0 = k0 }

func mix64(x uint64) uint64 {
	x ^= x >> 33
	x *= 0xff51afd7ed558ccd
	x ^= x >> 33
	x *= 0xc4ceb9fe1a85ec53
	x ^= x >> 33
	return x
}

func (b *advBuilder) digests(msg []byte, v atree.Value) [4]atree.Digest {
	h := fnv.New64a()
	_, _ = h.Write(msg)
	base := h.Sum64() ^ mix64(b.prof.Salt)
	var out [4]atree.Digest
	for l := 0; l < 4; l++ {
		x := mix64(base + uint64(l)*0x9e3779b97f4a7c15)
		if a := b.prof.Alpha[l]; a != 0 {
			x = x % a
			// spread the small alphabet over the range so that digests are not all tiny
			x = x*0x0101010101010101 + uint64(l)
		}
		out[l] = atree.Digest(x)
	}
	if b.prof.OrderRevealing {
		if u, ok := v.(tu.Uint64Value); ok {
			out[0] = atree.Digest(uint64(u)*16 + 1000)
		}
	}
	if b.prof.Paired {
		if u, ok := v.(tu.Uint64Value); ok {
			out[0] = atree.Digest(mix64(mix64(b.prof.Salt) + uint64(u)/2))
		}
	}
	return out
}

func (b *advBuilder) Digest(hip atree.HashInputProvider, v atree.Value) (atree.Digester, error) {
	var scratch [64]byte
	msg, err := hip(v, scratch[:])
	if err != nil {
		return nil, err
	}
	return &advDigester{d: b.digests(msg, v), levels: b.prof.Levels}, nil
}

func (d *advDigester) DigestPrefix(level uint) ([]atree.Digest, error) {
	if level > d.levels {
		return nil, fmt.Errorf("verif: digest prefix level %d out of range", level)
	}
	out := make([]atree.Digest, 0, level)
	for i := uint(0); i < level; i++ {
		out = append(out, d.d[i])
	}
	return out, nil
}

func (d *advDigester) Digest(level uint) (atree.Digest, error) {
	if level >= d.levels {
		return 0, fmt.Errorf("verif: digest level %d out of range", level)
	}
	return d.d[level], nil
}

func (d *advDigester) Reset()       {}
func (d *advDigester) Levels() uint { return d.levels }

// ---------------------------------------------------------------------------------------------
// helpers

func addrOf(b byte, hi byte) atree.Address {
	return atree.Address{hi, 0, 0, 0, 0, 0, 0, b}
}

func slabIndexUint(id atree.SlabID) uint64 {
	idx := id.Index()
	return binary.BigEndian.Uint64(idx[:])
}

func unwrapSomeValue(v atree.Value) (atree.Value, int) {
	n := 0
	for {
		sv, ok := v.(tu.SomeValue)
		if !ok {
			return v, n
		}
		v = sv.Value
		n++
	}
}

func unwrapSomeStorable(s atree.Storable) (atree.Storable, int) {
	n := 0
	for {
		ss, ok := s.(tu.SomeStorable)
		if !ok {
			return s, n
		}
		s = ss.Storable
		n++
	}
}

// someWrapperSize is the encoded prefix size of n nested Some wrappers (as test_utils encodes them).
func someWrapperSize(n int) uint32 {
	switch {
	case n == 0:
		return 0
	case n == 1:
		return 2
	default:
		return 2 + 1 + atree.GetUintCBORSize(uint64(n))
	}
}

// ---------------------------------------------------------------------------------------------
// Harness-defined storable used by the concurrency checks: a byte string whose Encode yields
// (scheduling jitter inside encoder workers) or fails on demand. It is encoded as a plain CBOR
// byte string, a major type none of the test_utils storables use, so the wrapping decoder below
// can recognise it without consuming anything test_utils needs. Only used as a direct element of
// root-level slabs (the test_utils decoder recurses with itself inside wrappers / inlined slabs).

type BlobValue struct {
	ID  uint64
	Pad uint32
	// FailStorable: Storable() returns an error (carried by the value itself, so that concurrent clients do not share a switch)
	FailStorable bool
}

var _ atree.Value = BlobValue{}
var _ atree.Storable = BlobValue{}

// blobHook is called at the start of every BlobValue.Encode / decode; returning an error makes it fail.
var blobEncodeHook atomic.Value // func(id uint64) error
var blobDecodeHook atomic.Value // func(id uint64) error

var ErrBlob = errors.New("verif: injected storable fault")

func (v BlobValue) payloadLen() int { return 8 + int(v.Pad) }

func (v BlobValue) ByteSize() uint32 {
	n := uint64(v.payloadLen())
	return atree.GetUintCBORSize(n) + uint32(n)
}

func (v BlobValue) Encode(enc *atree.Encoder) error {
	if h, ok := blobEncodeHook.Load().(func(uint64) error); ok && h != nil {
		if err := h(v.ID); err != nil {
			return err
		}
	}
	b := make([]byte, v.payloadLen())
	binary.BigEndian.PutUint64(b, v.ID)
	for i := 8; i < len(b); i++ {
		b[i] = byte(v.ID) + byte(i)
	}
	return enc.CBOR.EncodeBytes(b)
}

func (v BlobValue) StoredValue(atree.SlabStorage) (atree.Value, error) { return v, nil }
func (v BlobValue) ChildStorables() []atree.Storable                   { return nil }
func (v BlobValue) CanCopyNonRefSimple() bool                          { return true }
func (v BlobValue) CopyNonRefSimple() (atree.Storable, error)          { return v, nil }
func (v BlobValue) Storable(st atree.SlabStorage, addr atree.Address, max uint32) (atree.Storable, error) {
	if v.FailStorable {
		return nil, ErrBlob // a caller-supplied value that cannot be turned into a storable
	}
	if v.ByteSize() > max {
		return atree.NewStorableSlab(st, addr, v, v.ByteSize())
	}
	return v, nil
}

func decodeStorableWithBlob(dec *cbor.StreamDecoder, id atree.SlabID, inlined []atree.ExtraData) (atree.Storable, error) {
	t, err := dec.NextType()
	if err != nil {
		return nil, err
	}
	if t == cbor.ByteStringType {
		b, err := dec.DecodeBytes()
		if err != nil {
			return nil, err
		}
		if len(b) < 8 {
			return nil, fmt.Errorf("verif: short blob")
		}
		v := BlobValue{ID: binary.BigEndian.Uint64(b), Pad: uint32(len(b) - 8)}
		if h, ok := blobDecodeHook.Load().(func(uint64) error); ok && h != nil {
			if err := h(v.ID); err != nil {
				return nil, err
			}
		}
		return v, nil
	}
	return tu.DecodeStorable(dec, id, inlined)
}

func init() { decodeStorable = safeDecodeStorable }

// safeDecodeStorable is the harness' caller-supplied storable decoder: the same format as
// test_utils.DecodeStorable, but it recurses with itself and bounds the "nested levels" count of
// multi-level wrappers. (test_utils.DecodeStorable builds one wrapper object per level in an unbounded
// loop, so a crafted 8-byte level count makes the *helper* allocate without limit - a weakness of the test
// helper, not of atree; C19 must not blame the library for it.)
func safeDecodeStorable(dec *cbor.StreamDecoder, id atree.SlabID, inlined []atree.ExtraData) (atree.Storable, error) {
	t, err := dec.NextType()
	if err != nil {
		return nil, err
	}
	switch t {
	case cbor.ByteStringType:
		return decodeBlob(dec)
	case cbor.TextStringType:
		s, err := dec.DecodeString()
		if err != nil {
			return nil, err
		}
		return tu.NewStringValue(s), nil
	case cbor.TagType:
		tag, err := dec.DecodeTagNumber()
		if err != nil {
			return nil, err
		}
		switch tag {
		case atree.CBORTagInlinedArray:
			return atree.DecodeInlinedArrayStorable(dec, safeDecodeStorable, id, inlined)
		case atree.CBORTagInlinedMap:
			return atree.DecodeInlinedMapStorable(dec, safeDecodeStorable, id, inlined)
		case atree.CBORTagInlinedCompactMap:
			return atree.DecodeInlinedCompactMapStorable(dec, safeDecodeStorable, id, inlined)
		case atree.CBORTagSlabID:
			return atree.DecodeSlabIDStorable(dec)
		case 161, 162, 163, 164:
			n, err := dec.DecodeUint64()
			if err != nil {
				return nil, err
			}
			switch tag {
			case 161:
				if n > 0xff {
					return nil, fmt.Errorf("verif: uint8 out of range")
				}
				return tu.Uint8Value(n), nil
			case 162:
				if n > 0xffff {
					return nil, fmt.Errorf("verif: uint16 out of range")
				}
				return tu.Uint16Value(n), nil
			case 163:
				if n > 0xffffffff {
					return nil, fmt.Errorf("verif: uint32 out of range")
				}
				return tu.Uint32Value(n), nil
			}
			return tu.Uint64Value(n), nil
		case tu.CBORTagSomeValue:
			s, err := safeDecodeStorable(dec, id, inlined)
			if err != nil {
				return nil, err
			}
			return tu.SomeStorable{Storable: s}, nil
		case 167:
			cnt, err := dec.DecodeArrayHead()
			if err != nil {
				return nil, err
			}
			if cnt != 2 {
				return nil, fmt.Errorf("verif: invalid nested wrapper encoding")
			}
			levels, err := dec.DecodeUint64()
			if err != nil {
				return nil, err
			}
			if levels <= 1 || levels > 64 {
				return nil, fmt.Errorf("verif: invalid nested wrapper level count %d", levels)
			}
			inner, err := safeDecodeStorable(dec, id, inlined)
			if err != nil {
				return nil, err
			}
			s := tu.SomeStorable{Storable: inner}
			for i := uint64(1); i < levels; i++ {
				s = tu.SomeStorable{Storable: s}
			}
			return s, nil
		}
		return nil, fmt.Errorf("verif: invalid tag number %d", tag)
	}
	return nil, fmt.Errorf("verif: invalid cbor type %s for storable", t)
}

func decodeBlob(dec *cbor.StreamDecoder) (atree.Storable, error) {
	b, err := dec.DecodeBytes()
	if err != nil {
		return nil, err
	}
	if len(b) < 8 {
		return nil, fmt.Errorf("verif: short blob")
	}
	v := BlobValue{ID: binary.BigEndian.Uint64(b), Pad: uint32(len(b) - 8)}
	if h, ok := blobDecodeHook.Load().(func(uint64) error); ok && h != nil {
		if err := h(v.ID); err != nil {
			return nil, err
		}
	}
	return v, nil
}
